"""Reference state machine of one period's solution, written from the statements of C02 / C06.

It never calls fsic.  It works on a plain state:
    state = {'values': {name: ndarray}, 'status': [..], 'iterations': [..]}
and on callbacks supplied by the harness:
    evaluate(state, T, k, strict) -> None      one evaluation pass (may raise); `strict` = warnings are errors
    before(state, T) / after(state, T, k)      hooks (may raise)
"""
import math

import numpy as np


class RefOutcome:
    def __init__(self):
        self.returned = None      # True / False
        self.exc = None           # exception type name
        self.cause = None         # type name of the chained original exception
        self.passes = 0           # evaluation passes performed
        self.before_calls = 0
        self.after_calls = 0
        self.iteration_args = []  # iteration number passed to each evaluation
        self.loose = False        # only weak clauses apply (invalid `errors` value)

    def __repr__(self):
        return (f'RefOutcome(returned={self.returned}, exc={self.exc}, cause={self.cause}, passes={self.passes}, '
                f'before={self.before_calls}, after={self.after_calls})')


def _finite(values):
    return all(math.isfinite(v) for v in values)


def solve_t(state, t, n, *, check, endogenous, evaluate, before=None, after=None, min_iter=0, max_iter=100,
            tol=1e-10, offset=0, failures='raise', errors='raise', catch_first_error=True):
    """Apply the documented state machine to `state` in place; -> RefOutcome."""
    out = RefOutcome()
    values = state['values']
    if min_iter > max_iter:
        out.exc = 'ValueError'
        return out
    T = t + n if t < 0 else t
    if offset:
        if T + offset < 0 or T + offset >= n:
            out.exc = 'IndexError'
            return out
        for name in endogenous:
            values[name][T] = values[name][T + offset]

    def check_values():
        return [float(values[name][T]) for name in check]

    current = check_values()
    if errors == 'raise' and not _finite(current):
        out.exc = 'SolutionError'
        out.cause = None
        return out
    strict = errors == 'raise' and catch_first_error

    out.before_calls += 1
    if before is not None:
        try:
            before(state, T)
        except Exception as e:  # noqa: BLE001
            out.exc = 'SolutionError'
            out.cause = type(e).__name__
            return out

    status = None
    k = 0
    for k in range(1, max_iter + 1):
        previous = list(current)
        out.passes += 1
        out.iteration_args.append(k)
        try:
            evaluate(state, T, k, strict)
        except Exception as e:  # noqa: BLE001
            if errors == 'raise':
                state['status'][T] = 'E'
                state['iterations'][T] = k
            out.exc = 'SolutionError'
            out.cause = type(e).__name__
            return out
        current = check_values()
        if not _finite(previous):
            continue
        if not _finite(current):
            if errors == 'raise':
                state['status'][T] = 'E'
                state['iterations'][T] = k
                out.exc = 'SolutionError'
                return out
            if errors == 'skip':
                status = 'S'
                break
            if errors == 'ignore':
                if k == max_iter:
                    status = 'F'
                    break
                continue
            if errors == 'replace':
                if k == max_iter:
                    status = 'F'
                    break
                current = [v if math.isfinite(v) else 0.0 for v in current]
                continue
            out.loose = True
            out.exc = 'ValueError'
            return out
        if k < min_iter:
            continue
        if all(abs(np.float64(c) - np.float64(p)) < tol for c, p in zip(current, previous)):
            out.after_calls += 1
            if after is not None:
                try:
                    after(state, T, k)
                except Exception as e:  # noqa: BLE001
                    out.exc = 'SolutionError'
                    out.cause = type(e).__name__
                    return out
            status = '.'
            break
    else:
        status = 'F'
        k = max_iter
    state['status'][T] = status
    state['iterations'][T] = k
    if status == 'F' and failures == 'raise':
        out.exc = 'NonConvergenceError'
        return out
    out.returned = status == '.'
    return out
