"""Scripted BaseModel subclasses: _evaluate replays a generated per-(period, pass) script of outcomes.

Outcome tokens (per endogenous variable, per pass)
    'same'                 no change
    ['move', d]            value += d
    ['set', v]             value = v                  ('nan', 'inf', '-inf' as strings)
    'warn'                 value = 1.0 / 0.0 through NumPy (emits RuntimeWarning, stores inf unless warnings are errors)
    ['warn', 'Category', v]  warnings.warn(..., Category) and then value = v - a guarded operation in the model's own code
                           (UserWarning, DeprecationWarning, FutureWarning; stores v unless warnings are errors)
    ['raise', 'Name']      raise that exception (ZeroDivisionError, ValueError, KeyError, RuntimeError)
A pass is {var: token}; a script is {"<T>:<pass>": pass}; missing entries mean 'same' for every variable.
Hooks: {'before': 'Name'|None, 'after': 'Name'|None} raise the named exception.
"""
import numpy as np

from . import env  # noqa: F401
import fsic

class UserDefined(Exception):
    """An exception class of the model author's own (derives from Exception directly)."""


EXC = {'UserDefined': UserDefined, 'AssertionError': AssertionError, 'NotImplementedError': NotImplementedError,
       'StopIteration': StopIteration, 'OSError': OSError,
       'ZeroDivisionError': ZeroDivisionError, 'ValueError': ValueError, 'KeyError': KeyError,
       'RuntimeError': RuntimeError, 'FloatingPointError': FloatingPointError,
       # the library's own exception classes can come out of user code too (e.g. a nested model solved inside a pass)
       'SolutionError': fsic.exceptions.SolutionError, 'NonConvergenceError': fsic.exceptions.NonConvergenceError,
       'FSICError': fsic.exceptions.FSICError, 'IndexError': IndexError, 'Exception': Exception}


WARNING_CATEGORIES = {'UserWarning': UserWarning, 'DeprecationWarning': DeprecationWarning, 'FutureWarning': FutureWarning,
                      'RuntimeWarning': RuntimeWarning}


def dec(v):
    return float(v) if isinstance(v, str) else v


def apply_pass(get, set_, tokens, strict_ref=None, rebind=None):
    """Apply one pass. `strict_ref` is None for the real model (NumPy decides), or a bool for the reference
    (True: warnings are errors, so a 'warn' token raises instead of storing)."""
    for name, tok in tokens:
        if tok == 'same':
            continue
        if tok == 'warn':
            if strict_ref is None:
                set_(name, np.float64(1.0) / np.float64(0.0))
            elif strict_ref:
                raise RuntimeWarning('divide by zero encountered in scalar divide')
            else:
                set_(name, float('inf'))
            continue
        kind = tok[0]
        if kind == 'warn':
            category = WARNING_CATEGORIES[tok[1]]
            if strict_ref is None:
                import warnings
                warnings.warn('scripted: guarded operation', category)
                set_(name, np.float64(dec(tok[2])))
            elif strict_ref:
                raise category('scripted: guarded operation')
            else:
                set_(name, np.float64(dec(tok[2])))
            continue
        if kind == 'rebind':
            # like 'move', but through a whole-series assignment of a Python list (the container replaces the array object)
            if rebind is not None:
                rebind(name, tok[1])
            else:
                set_(name, get(name) + np.float64(tok[1]))
        elif kind == 'move':
            set_(name, get(name) + np.float64(tok[1]))
        elif kind == 'set':
            set_(name, np.float64(dec(tok[1])))
        elif kind == 'raise':
            raise EXC[tok[1]]('scripted')
        else:
            raise ValueError(tok)


def make_class(endogenous, check=None, exogenous=('X',), lags=0, leads=0, bases=(fsic.BaseModel,)):
    endogenous = list(endogenous)
    check_ = list(check) if check is not None else list(endogenous)

    class Scripted(*bases):
        ENDOGENOUS = list(endogenous)
        EXOGENOUS = list(exogenous)
        PARAMETERS = []
        ERRORS = []
        NAMES = ENDOGENOUS + EXOGENOUS
        CHECK = list(check_)
        LAGS = lags
        LEADS = leads

        def _norm(self, t):
            return t + len(self.span) if t < 0 else t

        def _cells(self, t):
            return {nm: float(self.__dict__['_' + nm][t]) for nm in self.__dict__['names']}

        def solve_t_before(self, t, *args, **kwargs):
            self.__dict__['_log'].append(('before', self._norm(t), kwargs.get('iteration')))
            self.__dict__['_vals'].append(('before', self._norm(t), None, self._cells(t)))
            super().solve_t_before(t, *args, **kwargs)
            name = self.__dict__['_hooks'].get('before')
            if name:
                raise EXC[name]('scripted before-hook')

        def solve_t_after(self, t, *args, **kwargs):
            self.__dict__['_log'].append(('after', self._norm(t), kwargs.get('iteration')))
            self.__dict__['_vals'].append(('after', self._norm(t), None, self._cells(t)))
            super().solve_t_after(t, *args, **kwargs)
            name = self.__dict__['_hooks'].get('after')
            if name:
                raise EXC[name]('scripted after-hook')

        def _evaluate(self, t, *args, **kwargs):
            T = self._norm(t)
            k = kwargs.get('iteration')
            self.__dict__['_log'].append(('eval', T, k, tuple(sorted(x for x in kwargs if x not in
                                                               ('errors', 'catch_first_error', 'iteration', 'trace', 'reset')))))
            tokens = self.__dict__['_script'].get(f'{T}:{k}')
            if tokens:
                def rebind(nm, d):
                    new = self.__dict__['_' + nm].tolist()
                    new[t] = new[t] + d
                    setattr(self, nm, new)         # Sequence operand: the series is replaced, not written in place
                apply_pass(lambda nm: self.__dict__['_' + nm][t],
                           lambda nm, v: self.__dict__['_' + nm].__setitem__(t, v), tokens, rebind=rebind)
            self.__dict__['_vals'].append(('pass', T, k, self._cells(t)))
            super()._evaluate(t, *args, **kwargs)

    return Scripted


def arm(model, script=None, hooks=None):
    model.__dict__['_script'] = dict(script or {})
    model.__dict__['_hooks'] = dict(hooks or {})
    model.__dict__['_log'] = []
    model.__dict__['_vals'] = []
    return model


def ref_evaluate_cb(script):
    """Reference-side evaluate callback for refsolver.solve_t."""
    def evaluate(state, T, k, strict):
        tokens = script.get(f'{T}:{k}')
        if tokens:
            values = state['values']
            apply_pass(lambda nm: values[nm][T], lambda nm, v: values[nm].__setitem__(T, v), tokens, strict_ref=strict)
    return evaluate


def ref_hooks(hooks):
    def before(state, T):
        name = (hooks or {}).get('before')
        if name:
            raise EXC[name]('scripted before-hook')

    def after(state, T, k):
        name = (hooks or {}).get('after')
        if name:
            raise EXC[name]('scripted after-hook')
    return before, after
