"""Common driver: phases, sharding, bucketing of violations, known findings, evidence.

A property module (fsicverif/props/cXX.py) exposes

    ID, TITLE, LEVEL, RULE, DESIGN_REF, ASSUMPTIONS
    phases(tier) -> [Phase, ...]

Each Phase has a `check(case) -> Result` function from a JSON-serialisable case
to a list of violation records (key, detail).  `key` is a root-cause signature
(oracle clause + structural class of the input), never the concrete values, so
that known findings can be matched and counted and the search continues past
them.  Exhaustive phases enumerate cases (sharded by index), random phases draw
them from a Hypothesis strategy (one seeded Hypothesis run per shard; an unknown
violation is raised inside the test so that Hypothesis shrinks it).
"""
import collections
import fnmatch
import hashlib
import json
import multiprocessing
import shutil
import tempfile
import os
import sys
import time
import traceback

from . import env

NPROC = int(os.environ.get('VERIF_NPROC', '16'))


class HarnessError(Exception):
    """Something is wrong with the harness itself (never reported as a violation)."""


class Result:
    __slots__ = ('violations', 'nontrivial', 'classes')

    def __init__(self, nontrivial=False, classes=()):
        self.violations = []
        self.nontrivial = bool(nontrivial)
        self.classes = list(classes)

    def fail(self, key, detail=''):
        self.violations.append((str(key), str(detail)[:2000]))
        return self

    def tag(self, *classes):
        self.classes.extend(classes)
        return self


class Phase:
    def __init__(self, name, check, *, gen=None, strategy=None, examples=0,
                 shards=None, exhaustive=False, note='', native=False):
        self.name = name
        self.native = native          # the check runs compiled code that can kill the process: cases are journalled
        self.check = check
        self.gen = gen                # () -> iterator of cases        (exhaustive / enumerated)
        self.strategy = strategy      # () -> hypothesis strategy      (random)
        self.examples = examples      # total examples over all shards (random)
        self.shards = shards
        self.exhaustive = exhaustive  # the enumeration covers a finite space completely
        self.note = note


def canonical(case):
    return json.dumps(case, sort_keys=True, default=repr, separators=(',', ':'))


def jhash(case):
    return int.from_bytes(hashlib.blake2b(canonical(case).encode(), digest_size=8).digest(), 'big')


def derive_seed(*parts):
    h = hashlib.blake2b('/'.join(map(str, parts)).encode(), digest_size=4).digest()
    return int.from_bytes(h, 'big')


# -- running one case ---------------------------------------------------------


def _bucket_crash(e):
    """Return a violation key if the exception escaped from the code under test, else None."""
    tb = traceback.extract_tb(e.__traceback__)
    harness_dir = os.path.join(env.VERIF, 'fsicverif')
    last_harness = -1
    last_fsic = -1
    for i, frame in enumerate(tb):
        fn = frame.filename
        if fn.startswith('<'):  # generated model code (`exec`) counts as code under test
            last_fsic = i
            continue
        fn = os.path.realpath(fn)
        if fn.startswith(env.FSIC_DIR + os.sep):
            last_fsic = i
        elif fn.startswith(harness_dir + os.sep):
            last_harness = i
    if last_fsic > last_harness:
        frame = tb[last_fsic]
        where = os.path.basename(frame.filename) + ':' + frame.name
        return f'crash/{type(e).__name__}/{where}'
    return None


_JOURNAL_DIR = None      # set in worker processes of phases that run native code


def _journal(phase, case):
    """Write the case about to run next to this worker's pid: if compiled code kills the process the parent finds it."""
    if _JOURNAL_DIR is not None and getattr(phase, 'native', False):
        with open(os.path.join(_JOURNAL_DIR, f'{os.getpid()}.json'), 'w') as fh:
            json.dump({'phase': phase.name, 'case': case}, fh, default=repr)


def run_check(phase, case):
    _journal(phase, case)
    try:
        res = phase.check(case)
    except HarnessError:
        raise
    except (KeyboardInterrupt, SystemExit):
        raise
    except BaseException as e:  # noqa: BLE001
        key = _bucket_crash(e)
        if key is None:
            raise HarnessError(
                f'check function of phase {phase.name!r} raised on case {canonical(case)[:600]}:\n'
                + ''.join(traceback.format_exception(type(e), e, e.__traceback__))
            ) from e
        res = Result()
        res.fail(key, ''.join(traceback.format_exception_only(type(e), e)).strip())
    if not isinstance(res, Result):
        raise HarnessError(f'phase {phase.name!r}: check returned {type(res)}')
    return res


# -- statistics ---------------------------------------------------------------


class Stats:
    def __init__(self):
        self.evaluations = 0
        self.shrink_evaluations = 0
        self.skipped_after_budget = 0
        self.nontrivial_hashes = set()
        self.nontrivial_evaluations = 0
        self.classes = collections.Counter()
        self.samples = []            # nontrivial samples
        self.trivial_samples = []
        self.excluded_known = collections.Counter()
        self.violations = {}         # key -> (case, detail)
        self.budget_exhausted = False
        self.per_phase = collections.Counter()
        self.exhaustive_phases = []

    def record(self, phase, case, res, keep_samples=3):
        self.evaluations += 1
        self.per_phase[phase.name] += 1
        for c in res.classes:
            self.classes[c] += 1
        if res.nontrivial:
            self.nontrivial_evaluations += 1
            self.nontrivial_hashes.add(jhash(case))
            if len(self.samples) < keep_samples:
                self.samples.append({'phase': phase.name, 'case': case})
        elif len(self.trivial_samples) < 1:
            self.trivial_samples.append({'phase': phase.name, 'case': case})

    def add_violation(self, phase, key, case, detail):
        old = self.violations.get(key)
        if old is None or len(canonical(case)) < len(canonical(old['case'])):
            self.violations[key] = {'phase': phase.name, 'case': case, 'detail': detail, 'key': key}

    def export(self):
        d = dict(self.__dict__)
        d['nontrivial_hashes'] = list(self.nontrivial_hashes)
        d['classes'] = dict(self.classes)
        d['excluded_known'] = dict(self.excluded_known)
        d['per_phase'] = dict(self.per_phase)
        return d

    def merge(self, d):
        self.evaluations += d['evaluations']
        self.shrink_evaluations += d['shrink_evaluations']
        self.skipped_after_budget += d['skipped_after_budget']
        self.nontrivial_evaluations += d['nontrivial_evaluations']
        self.nontrivial_hashes.update(d['nontrivial_hashes'])
        self.classes.update(d['classes'])
        self.excluded_known.update(d['excluded_known'])
        self.per_phase.update(d['per_phase'])
        self.budget_exhausted = self.budget_exhausted or d['budget_exhausted']
        for s in d['samples']:
            self.samples.append(s)
        for s in d['trivial_samples']:
            self.trivial_samples.append(s)
        for key, v in d['violations'].items():
            old = self.violations.get(key)
            if old is None or len(canonical(v['case'])) < len(canonical(old['case'])):
                self.violations[key] = v


class Suppress:
    """Known findings (active ones) and keys already reported in earlier rounds."""

    def __init__(self, findings=(), extra=()):
        self.findings = list(findings)   # [(finding_id, glob)]
        self.extra = list(extra)         # [exact keys]

    def classify(self, key):
        """-> ('known', finding_id) | ('seen', key) | None."""
        for fid, glob in self.findings:
            if fnmatch.fnmatchcase(key, glob):
                return ('known', fid)
        if key in self.extra:
            return ('seen', key)
        return None


class _ViolationFound(Exception):
    pass


# -- workers ------------------------------------------------------------------


def _worker(args):
    (prop_name, tier, seed, phase_index, shard, nshards, suppress, deadline, round_no) = args[:9]
    import importlib
    global _JOURNAL_DIR
    _JOURNAL_DIR = args[9] if len(args) > 9 else None

    mod = importlib.import_module(f'fsicverif.props.{prop_name}')
    phase = mod.phases(tier)[phase_index]
    stats = Stats()
    try:
        if phase.gen is not None:
            _run_enumerated(phase, shard, nshards, suppress, deadline, stats)
        else:
            _run_random(mod, phase, tier, seed, shard, nshards, suppress, deadline, stats, round_no)
    except HarnessError as e:
        return {'harness_error': str(e)}
    except BaseException as e:  # noqa: BLE001
        return {'harness_error': ''.join(traceback.format_exception(type(e), e, e.__traceback__))}
    return stats.export()


def _handle(phase, case, res, suppress, stats):
    """Sort violation records into known / seen / new.  Returns list of new (key, detail)."""
    new = []
    for key, detail in res.violations:
        c = suppress.classify(key)
        if c is None:
            new.append((key, detail))
        elif c[0] == 'known':
            stats.excluded_known[c[1]] += 1
    return new


def _run_enumerated(phase, shard, nshards, suppress, deadline, stats):
    for i, case in enumerate(phase.gen()):
        if i % nshards != shard:
            continue
        if (i & 0xFF) == 0 and time.time() > deadline:
            stats.budget_exhausted = True
            break
        res = run_check(phase, case)
        stats.record(phase, case, res)
        for key, detail in _handle(phase, case, res, suppress, stats):
            stats.add_violation(phase, key, case, detail)


def _run_random(mod, phase, tier, seed, shard, nshards, suppress, deadline, stats, round_no):
    import hypothesis
    from hypothesis import HealthCheck, Phase as HPhase, given, settings

    n = max(1, phase.examples // nshards)
    state = {'failed': False, 'last': None}

    def body(case):
        if state['failed']:
            stats.shrink_evaluations += 1
        elif time.time() > deadline:
            stats.budget_exhausted = True
            stats.skipped_after_budget += 1
            return
        res = run_check(phase, case)
        if not state['failed']:
            stats.record(phase, case, res)
        new = _handle(phase, case, res, suppress, stats if not state['failed'] else Stats())
        if new:
            state['failed'] = True
            state['last'] = (case, new[0])
            raise _ViolationFound(new[0][0])

    test = given(phase.strategy())(body)
    test = settings(
        max_examples=n,
        database=None,
        deadline=None,
        derandomize=False,
        report_multiple_bugs=False,
        print_blob=False,
        phases=[HPhase.generate, HPhase.shrink],
        suppress_health_check=[HealthCheck.too_slow, HealthCheck.data_too_large,
                               HealthCheck.large_base_example],
    )(test)
    test = hypothesis.seed(derive_seed(seed, mod.ID, phase.name, shard, round_no))(test)
    try:
        test()
    except _ViolationFound:
        case, (key, detail) = state['last']
        stats.add_violation(phase, key, case, detail)
    except hypothesis.errors.HypothesisException as e:
        if state['last'] is not None and 'Flaky' in type(e).__name__:
            # a violation was observed but did not reproduce while shrinking (state leaking out of the
            # code under test): report the observed case unshrunk rather than a harness error
            case, (key, detail) = state['last']
            stats.add_violation(phase, key, case, detail + ' [observed once; did not reproduce during shrinking]')
        else:
            raise HarnessError(f'Hypothesis reported {type(e).__name__} in phase {phase.name}: {e}') from e
    except BaseExceptionGroup as e:  # noqa: F821  (Hypothesis wraps flaky failures in a group)
        if state['last'] is not None:
            case, (key, detail) = state['last']
            stats.add_violation(phase, key, case, detail + ' [observed once; did not reproduce during shrinking]')
        else:
            raise HarnessError(f'exception group in phase {phase.name}: {e!r}') from e


# -- main entry ---------------------------------------------------------------


GRACE_S = float(os.environ.get('VERIF_GRACE_S', '300'))


def _collect(pool, tasks, deadline, journal, phases, total):
    """Yield the workers' results as they arrive; notice a worker that died (compiled code under test can take the whole
    process down - multiprocessing would wait for ever) and a run that is stuck far beyond its budget."""
    pending = {i: pool.apply_async(_worker, (t,)) for i, t in enumerate(tasks)}
    started = {p.pid for p in pool._pool}
    while pending:
        for i in [i for i, r in pending.items() if r.ready()]:
            yield pending.pop(i).get()
        if not pending:
            break
        now_pids = {p.pid for p in pool._pool if p.exitcode is None}
        died = started - now_pids
        if died:
            # which cases were they running?
            culprits = []
            for pid in died:
                try:
                    with open(os.path.join(journal, f'{pid}.json')) as fh:
                        culprits.append(json.load(fh))
                except (OSError, ValueError):
                    pass
            pool.terminate()
            if not culprits:
                raise HarnessError(f'worker process(es) {sorted(died)} died without a journalled case')
            by_name = {p.name: p for p in phases}
            for c in culprits:
                total.add_violation(by_name[c['phase']], f'crash/worker-died/{c["phase"]}', c['case'],
                                    'the process running this case was killed (crash in compiled code)')
            return
        if time.time() > deadline + GRACE_S:
            pool.terminate()
            raise HarnessError(f'{len(pending)} shard(s) still running {GRACE_S:.0f} s after the budget ended: inconclusive')
        time.sleep(0.05)


def run_property(mod, tier, seed, *, budget_s=None, verbose=True):
    """Run all phases of a property. Returns (exit_code, evidence_dict)."""
    from . import findings as findings_mod

    t0 = time.time()
    prop_name = mod.__name__.rsplit('.', 1)[-1]
    phases = mod.phases(tier)
    if budget_s is None:
        budget_s = float(os.environ.get('VERIF_BUDGET_S', 240 if tier == 'quick' else 3000))
    deadline = t0 + budget_s
    out_lines = []
    total = Stats()
    exit_code = 0

    # 1. known findings: replay witnesses (decides which matchers are active)
    known = findings_mod.load(mod.ID)
    active = []
    by_name = {p.name: p for p in phases}
    for f in known:
        w = f['witness']
        phase = by_name.get(w['phase'])
        if phase is None:
            raise HarnessError(f"known finding {f['id']}: unknown phase {w['phase']}")
        res = run_check(phase, w['case'])
        if any(fnmatch.fnmatchcase(k, f['key_glob']) for k, _ in res.violations):
            active.append((f['id'], f['key_glob']))
            out_lines.append(f"KNOWN-FINDING: property={mod.ID} {f['what']}")
        others = [(k, d) for k, d in res.violations if not fnmatch.fnmatchcase(k, f['key_glob'])]
        suppress0 = Suppress(active)
        for k, d in others:
            if suppress0.classify(k) is None:
                total.add_violation(phase, k, w['case'], d)

    # 2. regressions (shrunk reproductions of repaired defects and of killed mutants)
    suppress = Suppress(active)
    reg_dir = os.path.join(env.VERIF, 'regressions', mod.ID)
    n_reg = 0
    if os.path.isdir(reg_dir):
        for fn in sorted(os.listdir(reg_dir)):
            if not fn.endswith('.json'):
                continue
            with open(os.path.join(reg_dir, fn)) as fh:
                r = json.load(fh)
            phase = by_name.get(r['phase'])
            if phase is None:
                raise HarnessError(f'regression {fn}: unknown phase {r["phase"]}')
            res = run_check(phase, r['case'])
            n_reg += 1
            total.record(phase, r['case'], res, keep_samples=0)
            for k, d in _handle(phase, r['case'], res, suppress, total):
                total.add_violation(phase, k, r['case'], d)

    # 3. generated search, up to `rounds` rounds (each suppresses the keys found so far)
    rounds = 3 if tier == 'quick' else 5
    seen_keys = list(total.violations)
    ctx = multiprocessing.get_context('fork')
    for round_no in range(rounds):
        tasks = []
        for pi, phase in enumerate(phases):
            if round_no > 0 and phase.gen is not None:
                continue  # enumerated phases collect every key in one pass
            nshards = phase.shards or NPROC
            if phase.gen is None:
                nshards = max(1, min(nshards, phase.examples))
            for s in range(nshards):
                tasks.append((prop_name, tier, seed, pi, s, nshards,
                              Suppress(active, seen_keys), deadline, round_no))
        if not tasks:
            break
        found_new = False
        journal = tempfile.mkdtemp(prefix='fsicverif-journal-')
        tasks = [t + (journal,) for t in tasks]
        with ctx.Pool(min(NPROC, len(tasks))) as pool:
            for d in _collect(pool, tasks, deadline, journal, phases, total):
                if 'harness_error' in d:
                    pool.terminate()
                    shutil.rmtree(journal, ignore_errors=True)
                    raise HarnessError(d['harness_error'])
                before = set(total.violations)
                if round_no > 0:
                    # later rounds only look for further keys; do not double count coverage
                    keep = Stats()
                    keep.merge(d)
                    for k, v in keep.violations.items():
                        total.violations.setdefault(k, v)
                    total.shrink_evaluations += keep.evaluations + keep.shrink_evaluations
                else:
                    total.merge(d)
                if set(total.violations) - before:
                    found_new = True
            pool.close()
            pool.join()          # let the workers exit normally (needed for line-coverage measurement of the workers)
        shutil.rmtree(journal, ignore_errors=True)
        seen_keys = list(total.violations)
        if not found_new or time.time() > deadline:
            break

    total.exhaustive_phases = [p.name for p in phases if p.exhaustive]

    # 4. report
    replay_dir = os.path.join(env.VERIF, 'replays')
    for key, v in sorted(total.violations.items()):
        os.makedirs(replay_dir, exist_ok=True)
        h = hashlib.blake2b(key.encode(), digest_size=5).hexdigest()
        path = os.path.join(replay_dir, f'{mod.ID}-{h}.json')
        with open(path, 'w') as fh:
            json.dump({'property': mod.ID, 'phase': v['phase'], 'key': key,
                       'detail': v['detail'], 'case': v['case']}, fh, indent=1, default=repr)
        out_lines.append(f'VIOLATION property={mod.ID} replay={path}')
        out_lines.append(f'  key={key}')
        out_lines.append(f'  detail={v["detail"][:400]}')
        exit_code = 1

    wall = time.time() - t0
    samples = total.samples[:6] + total.trivial_samples[:1]
    if not samples:
        samples = [{'note': 'no case was generated'}]
    evidence = {
        'property_id': mod.ID,
        'tier': tier,
        'seed': int(seed),
        'level': mod.LEVEL,
        'coverage': {
            'evaluations': total.evaluations,
            'distinct_nontrivial': len(total.nontrivial_hashes),
            'nontrivial_evaluations': total.nontrivial_evaluations,
            'rule': mod.RULE,
            'samples': samples,
            'exhaustive': bool(total.exhaustive_phases) and not total.budget_exhausted,
            'exhaustive_phases': total.exhaustive_phases,
            'per_phase_evaluations': dict(total.per_phase),
            'class_histogram': dict(sorted(total.classes.items())),
            'excluded_known': dict(total.excluded_known),
            'known_findings_active': [f for f, _ in active],
            'regressions_replayed': n_reg,
            'shrink_evaluations': total.shrink_evaluations,
            'budget_exhausted': total.budget_exhausted,
            'skipped_after_budget': total.skipped_after_budget,
            'violation_keys': sorted(total.violations),
            'tree_under_test': env.REPO,
        },
        'assumptions': list(getattr(mod, 'ASSUMPTIONS', [])) + _versions(),
        'wall_s': round(wall, 3),
        'violations': len(total.violations),
    }
    return exit_code, evidence, out_lines


def _versions():
    import numpy
    out = [f'python {sys.version.split()[0]}', f'numpy {numpy.__version__}']
    try:
        import pandas
        out.append(f'pandas {pandas.__version__}')
    except Exception:  # noqa: BLE001
        pass
    try:
        import hypothesis
        out.append(f'hypothesis {hypothesis.__version__}')
    except Exception:  # noqa: BLE001
        pass
    return ['versions: ' + ', '.join(out)]


def replay_file(mod, tier, path):
    with open(path) as fh:
        r = json.load(fh)
    by_name = {p.name: p for p in mod.phases(tier)}
    phase = by_name.get(r['phase'])
    if phase is None:
        # phase names may be tier specific: try the other tier
        other = 'thorough' if tier == 'quick' else 'quick'
        phase = {p.name: p for p in mod.phases(other)}.get(r['phase'])
    if phase is None:
        raise HarnessError(f'unknown phase {r["phase"]} in {path}')
    if str(r.get('key', '')).startswith('crash/worker-died'):
        # the case killed its process: run it in a child
        ctx = multiprocessing.get_context('fork')
        child = ctx.Process(target=run_check, args=(phase, r['case']))
        child.start()
        child.join(600)
        res = Result()
        if child.exitcode is None:
            child.terminate()
            raise HarnessError('replay still running after 600 s')
        if child.exitcode != 0:
            res.fail(r['key'], f'the process running this case died again (exit code {child.exitcode})')
        return res
    res = run_check(phase, r['case'])
    return res
