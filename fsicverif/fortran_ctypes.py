"""gfortran -shared + ctypes shim that mimics the f2py module interface used by fsic.fortran.FortranEngine.

f2py itself is unusable in this sandbox (no Meson); the generated Fortran has plain (non-module) subroutines
`evaluate`, `solve_t`, `solve`, which gfortran exports as `evaluate_`, `solve_t_`, `solve_` with all arguments by
reference.  The shim reproduces what the f2py wrappers do: copy arrays to column-major float64, infer the dimension
arguments from the arrays, pass integer sequences through unchanged (as int32), return intent(out) arguments as a tuple.

Input / output buffers carry one guard element in front so that an index one below the first element (a 0-based check
index, defect S18) stays inside memory owned by the shim and reads a deterministic value.
"""
import ctypes
import os
import shutil
import subprocess
import tempfile

import numpy as np

GFORTRAN = shutil.which('gfortran')
GUARD = 12345.678


class CompileError(Exception):
    def __init__(self, stderr, source):
        super().__init__(stderr)
        self.stderr = stderr
        self.source = source


def _buffer(shape, fill=None):
    """Column-major float64 array of `shape` preceded by one guard element; returns (owner, view)."""
    size = int(np.prod(shape)) if len(shape) else 1
    owner = np.empty(size + 1, dtype=np.float64)
    owner[0] = GUARD
    view = owner[1:].reshape(shape, order='F')
    if fill is not None:
        view[...] = fill
    return owner, view


def _ptr(view):
    return view.ctypes.data_as(ctypes.c_void_p)


def _iref(v):
    return ctypes.byref(ctypes.c_int(int(v)))


class Engine:
    """Stands in for the f2py extension module (`ENGINE`) of a FortranEngine subclass."""

    def __init__(self, source, *, flags=('-O0',)):
        if GFORTRAN is None:
            raise RuntimeError('gfortran not found')
        self.dir = tempfile.mkdtemp(prefix='fsicverif-f-')
        self.source = source
        src = os.path.join(self.dir, 'model.f95')
        with open(src, 'w') as fh:
            fh.write(source)
        so = os.path.join(self.dir, 'model.so')
        r = subprocess.run([GFORTRAN, '-shared', '-fPIC', *flags, '-o', so, src], cwd=self.dir,
                           capture_output=True, text=True)
        if r.returncode != 0:
            shutil.rmtree(self.dir, ignore_errors=True)
            raise CompileError(r.stderr, source)
        self.warnings = r.stderr
        self.lib = ctypes.CDLL(so)
        shutil.rmtree(self.dir, ignore_errors=True)   # the mapping stays valid after unlinking

    def evaluate(self, initial_values, t):
        a = np.asarray(initial_values, dtype=np.float64)
        nrows, ncols = a.shape
        o1, vin = _buffer((nrows, ncols), a)
        o2, vout = _buffer((nrows, ncols), 0.0)
        err = ctypes.c_int(-99)
        self.lib.evaluate_(_ptr(vin), _iref(t), _ptr(vout), ctypes.byref(err), _iref(nrows), _iref(ncols))
        return np.array(vout), err.value

    def solve_t(self, initial_values, t, min_iter, max_iter, tol, offset, convergence_variables, error_control):
        a = np.asarray(initial_values, dtype=np.float64)
        nrows, ncols = a.shape
        cv = np.asarray(list(convergence_variables), dtype=np.int32)
        o1, vin = _buffer((nrows, ncols), a)
        o2, vout = _buffer((nrows, ncols), 0.0)
        converged, iteration, err = ctypes.c_int(0), ctypes.c_int(-99), ctypes.c_int(-99)
        self.lib.solve_t_(_ptr(vin), _iref(t), _iref(min_iter), _iref(max_iter), ctypes.byref(ctypes.c_double(float(tol))),
                          _iref(offset), cv.ctypes.data_as(ctypes.c_void_p), _iref(error_control),
                          _ptr(vout), ctypes.byref(converged), ctypes.byref(iteration), ctypes.byref(err),
                          _iref(nrows), _iref(ncols), _iref(len(cv)))
        return np.array(vout), bool(converged.value), iteration.value, err.value

    def solve(self, initial_values, indexes, min_iter, max_iter, tol, offset, convergence_variables,
              failure_control, error_control):
        a = np.asarray(initial_values, dtype=np.float64)
        nrows, ncols = a.shape
        cv = np.asarray(list(convergence_variables), dtype=np.int32)
        ix = np.asarray(list(indexes), dtype=np.int32)
        npd = len(ix)
        o1, vin = _buffer((nrows, ncols), a)
        o2, vout = _buffer((nrows, ncols), 0.0)
        conv = np.zeros(max(npd, 1), dtype=np.int32)
        its = np.full(max(npd, 1), -99, dtype=np.int32)
        errs = np.full(max(npd, 1), -99, dtype=np.int32)
        self.lib.solve_(_ptr(vin), ix.ctypes.data_as(ctypes.c_void_p), _iref(min_iter), _iref(max_iter),
                        ctypes.byref(ctypes.c_double(float(tol))), _iref(offset), cv.ctypes.data_as(ctypes.c_void_p),
                        _iref(failure_control), _iref(error_control), _ptr(vout),
                        conv.ctypes.data_as(ctypes.c_void_p), its.ctypes.data_as(ctypes.c_void_p),
                        errs.ctypes.data_as(ctypes.c_void_p), _iref(nrows), _iref(ncols), _iref(len(cv)), _iref(npd))
        return np.array(vout), [bool(x) for x in conv[:npd]], [int(x) for x in its[:npd]], [int(x) for x in errs[:npd]]


def selftest():
    """Compile a fixed three-equation model and check one evaluate against a hand-computed result."""
    import fsic
    from fsic.fortran import build_fortran_definition
    symbols = fsic.parse_model('Y = C + G\nC = {a} * Y[-1]\nG = 2')
    eng = Engine(build_fortran_definition(symbols))
    # variable order: Y, C, G, a ; three periods
    vals = np.array([[1.0, 0.0, 0.0], [0.0, 0.0, 0.0], [0.0, 5.0, 0.0], [0.5, 0.5, 0.5]])
    out, err = eng.evaluate(vals, 2)          # Fortran index 2 = Python t = 1
    # Y[1] = C[1] + G[1] = 0 + 5 ; C[1] = a * Y[0] = 0.5 ; G[1] = 2
    if err != 0 or out[0, 1] != 5.0 or out[1, 1] != 0.5 or out[2, 1] != 2.0:
        raise RuntimeError(f'fortran shim self-test failed: err={err} out={out.tolist()}')
    return True
