"""Coverage-guided campaign for C13 (atheris / libFuzzer), used by the thorough tier as an input generator.

    python -m fsicverif.c13_fuzz <outdir> <seed> <seconds> <empty|scripts>

The fuzz target decodes bytes to a script (ASCII bytes are characters, bytes >= 128 select multi-character tokens),
applies the oracle of C13 (fsicverif.props.c13.judge) and *records* violating inputs in <outdir>/found instead of
crashing, so that the campaign continues past the first finding.  The verdict is never taken from this process: the
check re-runs every recorded input and a sample of the final corpus through its own phase.
"""
import hashlib
import os
import sys

TOKENS = ['```', ' = ', '[-1]', '[1]', '{a}', '<e>', 'exp(', 'np.', '\n', 'é', '[t]', "['p0']", '[`1`]', 'if ', ' else ',
          'and ', 'not ', 'max(', '**', '==', '<=', '  ', '\n```\n', 'Y', 'X', '0.5', '# c', '(\n', '\n)', '`np.pi`', 'lambda',
          'self.', '__', '{', '}', '[', ']', '`', '#', "'", '"', ',', ';', ':', '\\', '@', '\t', '\r\n', '\x0c', '-', '+']

SCRIPTS = [
    'Y = C + I + G',
    'C = {alpha_1} * YD + {alpha_2} * H[-1]\nYD = Y - T\nT = {theta} * Y',
    'C = ({alpha_1} * YD +\n     {alpha_2} * H[-1])',
    '```\nself.X[t] = 1\n```\nY = X',
    "Ci = C / C['2000Q1']",
    'Y = X if X > 0 else <e>[1]',
    'Y = exp(log(X)) + max(A, B) # comment',
    '(C =\n     {alpha_1} * YD)',
    'H = H[-1] + YD - C',
    '`self.W[t] = 0`',
]


def decode(data):
    out = []
    for b in data[:96]:
        if b < 128:
            out.append(chr(b))
        else:
            out.append(TOKENS[(b - 128) % len(TOKENS)])
    return ''.join(out)


def main():
    outdir, seed, seconds, mode = sys.argv[1], int(sys.argv[2]), int(sys.argv[3]), sys.argv[4]
    import atheris
    with atheris.instrument_imports(include=['fsic']):
        from . import env  # noqa: F401
        import fsic  # noqa: F401
    from .core import Result
    from .props import c13

    found = os.path.join(outdir, 'found')
    corpus = os.path.join(outdir, 'corpus-' + mode)
    os.makedirs(found, exist_ok=True)
    os.makedirs(corpus, exist_ok=True)
    if mode == 'scripts':
        for i, sc in enumerate(SCRIPTS):
            with open(os.path.join(corpus, f'seed{i}'), 'wb') as fh:
                fh.write(sc.encode('ascii'))
    seen = set()

    def test_one_input(data):
        text = decode(data)
        res = Result()
        c13.judge(text, res)
        for key, _ in res.violations:
            if key not in seen or len(seen) < 200:
                seen.add(key)
                name = hashlib.blake2b(text.encode(), digest_size=8).hexdigest()
                with open(os.path.join(found, name), 'w', encoding='utf-8') as fh:
                    fh.write(text)

    argv = [sys.argv[0], corpus, f'-seed={seed or 1}', f'-max_total_time={seconds}', '-max_len=96', '-print_final_stats=1',
            '-verbosity=0']
    atheris.Setup(argv, test_one_input)
    atheris.Fuzz()


if __name__ == '__main__':
    main()
