"""Operation alphabet for container histories (C09, C11, C18): JSON ops, operand decoding, application, shadow rules."""
import numpy as np

from . import env  # noqa: F401
from . import spans
from .util import attempt

import fsic
from fsic.core import VectorContainer


# -- operands ------------------------------------------------------------------------------------------


def dec_scalar(v):
    if isinstance(v, str) and v in ('nan', 'inf', '-inf'):
        return float(v)
    if isinstance(v, dict) and 's' in v:
        return v['s']           # a genuine string scalar
    if isinstance(v, dict) and 'tl' in v:
        return ('t', list(v['tl']))        # hashable? no - but a tuple: immutable outside, mutable inside
    if isinstance(v, dict) and 'obj' in v:
        return Holder(list(v['obj']))      # an instance of an ordinary user class: hashable (by identity) and mutable
    return v


class Holder:
    """A user-defined object kept as an ad hoc attribute of a container (default hash and equality; carries a list)."""

    def __init__(self, items):
        self.items = items

    def __repr__(self):
        return f'Holder({self.items!r})'


def dec_operand(o):
    """JSON operand -> Python value."""
    k = next(iter(o))
    v = o[k]
    if k == 'scalar':
        return dec_scalar(v)
    if k == 'list':
        return [dec_scalar(x) for x in v]
    if k == 'tuple':
        return tuple(dec_scalar(x) for x in v)
    if k == 'range':
        return range(v)
    if k == 'nested':
        return [[dec_scalar(x) for x in row] for row in v]
    if k == 'np':
        arr = np.array(v, dtype=o.get('dtype', 'float'))
        return arr
    if k == 'buffer':
        # a Sequence that also exports its memory (array.array): NumPy can wrap it without copying
        import array
        tc = o.get('typecode', 'd')
        return array.array(tc, [float(x) if tc == 'd' else int(x) for x in v])
    raise ValueError(o)


def operand_class(o):
    k = next(iter(o))
    if k == 'np':
        return 'np-rank%d' % np.array(o['np']).ndim
    return k


DTYPES = {'float': float, 'int': int, 'bool': bool, 'str': str, 'U2': '<U2', None: None}


# -- objects under test ---------------------------------------------------------------------------------


def make_object(kind, span_desc, strict=False, dtype=None, strict_rep=0):
    """`dtype`: the default dtype handed to a model / linker constructor (None = the library default, float)."""
    extra = {} if dtype is None else {'dtype': dtype}
    strict = [strict, np.bool_(strict), int(strict)][strict_rep % 3]      # the same flag in another representation
    span = spans.build(span_desc)
    n = len(span)
    # objects that have no variable yet
    if kind == 'empty-container':
        return VectorContainer(span, strict=strict)
    if kind == 'empty-model':
        return fsic.BaseModel(span, strict=strict, **extra)
    if kind == 'empty-linker':
        class Sub0(fsic.BaseModel):
            ENDOGENOUS = ['A']
            NAMES = ENDOGENOUS
            CHECK = ENDOGENOUS
        lk0 = fsic.BaseLinker({'a': Sub0(span)}, **extra)
        lk0.strict = strict
        return lk0
    if kind == 'container':
        c = VectorContainer(span, strict=strict)
        c.add_variable('X', np.arange(float(n)))
        c.add_variable('N', list(range(n)), dtype=int)
        c.add_variable('B', True)
        c.add_variable('S', 'ab')
        return c
    if kind == 'model':
        class M(fsic.BaseModel):
            ENDOGENOUS = ['X']
            EXOGENOUS = ['Y']
            PARAMETERS = []
            ERRORS = []
            NAMES = ENDOGENOUS + EXOGENOUS
            CHECK = ENDOGENOUS

            def _evaluate(self, t, **kwargs):
                self._X[t] = self._Y[t] * 0.5 + 1
        m = M(span, strict=strict, X=np.arange(float(n)), **extra)
        m.add_variable('N', list(range(n)), dtype=int)
        m.add_variable('S', 'ab', dtype=str)
        return m
    if kind == 'linker':
        class Sub(fsic.BaseModel):
            ENDOGENOUS = ['A']
            NAMES = ENDOGENOUS
            CHECK = ENDOGENOUS

        class L(fsic.BaseLinker):
            ENDOGENOUS = ['X']
            EXOGENOUS = ['Y']
            NAMES = ENDOGENOUS + EXOGENOUS
            CHECK = ENDOGENOUS
        lk = L({'a': Sub(span), 'b': Sub(spans.build(span_desc))}, X=np.arange(float(n)), **extra)
        lk.add_variable('N', list(range(n)), dtype=int)
        if strict:
            lk.strict = True
        return lk
    raise ValueError(kind)


def variables(obj):
    """Names of the series the object stores, in declaration order."""
    return list(obj.__dict__['index'])


def value_names(obj):
    """Names stacked by `.values` (models and linkers leave out status / iterations)."""
    return list(obj.__dict__['names']) if 'names' in obj.__dict__ else list(obj.__dict__['index'])


# -- applying one operation ------------------------------------------------------------------------------


def pick_name(obj, sel):
    """sel: ['var', i] existing variable | ['new', name] | ['near', i] case-variant of an existing variable."""
    vs = variables(obj)
    if not vs and sel[0] != 'new':
        return 'X'          # (a history may have emptied the variable list)
    if sel[0] == 'var':
        return vs[sel[1] % len(vs)]
    if sel[0] == 'under':
        return '_' + vs[sel[1] % len(vs)]     # the private storage slot of a variable (only generated under strict)
    if sel[0] == 'near':
        nm = vs[sel[1] % len(vs)]
        return nm.swapcase() if nm.swapcase() != nm else nm + 'x'
    return sel[1]


def apply_op(obj, op, labels, keep=None):
    """Apply a JSON op; returns util.Outcome. (The caller decides what the outcome should have been.)
    If `keep` is a list, the decoded ndarray operands are appended to it (so that the caller can mutate them afterwards)."""
    if keep is not None:
        global dec_operand
        original = dec_operand

        def dec_and_keep(o):
            v = original(o)
            if isinstance(v, np.ndarray) or type(v).__name__ == 'array':
                keep.append(v)
            return v
        dec_operand = dec_and_keep
        try:
            return apply_op(obj, op, labels)
        finally:
            dec_operand = original
    kind = op[0]
    if kind == 'add_variable':
        name = pick_name(obj, op[1])
        return attempt(obj.add_variable, name, dec_operand(op[2]), dtype=DTYPES[op[3]])
    if kind == 'setattr':
        return attempt(setattr, obj, pick_name(obj, op[1]), dec_operand(op[2]))
    if kind == 'setitem':
        return attempt(obj.__setitem__, pick_name(obj, op[1]), dec_operand(op[2]))
    if kind == 'setlabel':
        return attempt(obj.__setitem__, (pick_name(obj, op[1]), labels[op[2] % len(labels)]), dec_operand(op[3]))
    if kind == 'setslice':
        a = None if op[2] is None else labels[op[2] % len(labels)]
        b = None if op[3] is None else labels[op[3] % len(labels)]
        return attempt(obj.__setitem__, (pick_name(obj, op[1]), slice(a, b, op[4])), dec_operand(op[5]))
    if kind == 'replace_values':
        return attempt(lambda: obj.replace_values(**{pick_name(obj, s): dec_operand(o) for s, o in op[1]}))
    if kind == 'values':
        return attempt(setattr, obj, 'values', dec_operand(op[1]))
    if kind == 'add_attribute':
        return attempt(obj.add_attribute, op[1], dec_scalar(op[2]))
    if kind == 'strict':
        # optional third element: the same truth value as np.bool_ (1) or int (2)
        flag = [op[1], np.bool_(op[1]), int(op[1])][op[2] % 3] if len(op) > 2 else op[1]
        return attempt(setattr, obj, 'strict', flag)
    if kind == 'inplace':
        name = pick_name(obj, op[1])
        return attempt(lambda: obj[name].__setitem__(op[2] % max(1, len(labels)), dec_scalar(op[3])))
    if kind == 'solve':
        return attempt(lambda: obj.solve(max_iter=3, failures='ignore', errors='ignore'))
    raise ValueError(op)


# -- Hypothesis strategies ----------------------------------------------------------------------------------


def operands(n):
    from hypothesis import strategies as st
    scalar = st.sampled_from([0, 1, 7, 2.5, -1.0, True, False, 'nan', {'s': 'zz'}, {'s': 'abc'}, {'s': '7'}])
    num = st.sampled_from([0, 1, 2, 3.5, -2.0, True])
    lens = st.sampled_from([n, n, n, n - 1 if n > 0 else 1, n + 1, 1, 0])
    seq = lens.flatmap(lambda k: st.lists(st.one_of(num, st.sampled_from([{'s': 'q'}, 'nan'])), min_size=k, max_size=k))
    numseq = lens.flatmap(lambda k: st.lists(num, min_size=k, max_size=k))
    nested = st.tuples(st.sampled_from([n, n, 1, 2, n + 1]), st.sampled_from([1, 2, n])).flatmap(
        lambda rc: st.lists(st.lists(num, min_size=rc[1], max_size=rc[1]), min_size=rc[0], max_size=rc[0]))
    nparr = st.one_of(
        numseq.map(lambda v: {'np': v, 'dtype': 'float'}),
        numseq.map(lambda v: {'np': [int(x) for x in v], 'dtype': 'int'}),
        nested.map(lambda v: {'np': v, 'dtype': 'float'}),
        st.just({'np': 3.0, 'dtype': 'float'}),
        st.sampled_from([['a'] * n, ['longer'] * n]).map(lambda v: {'np': v, 'dtype': 'str'}),
    )
    return st.one_of(
        scalar.map(lambda v: {'scalar': v}),
        seq.map(lambda v: {'list': v}),
        numseq.map(lambda v: {'tuple': v}),
        st.sampled_from([n, n, n + 1, 1]).map(lambda v: {'range': v}),
        nested.map(lambda v: {'nested': v}),
        nparr,
        numseq.map(lambda v: {'buffer': [float(x) for x in v], 'typecode': 'd'}),
        numseq.map(lambda v: {'buffer': [int(x) for x in v], 'typecode': 'q'}),
    )


def name_selectors(existing_only=False):
    from hypothesis import strategies as st
    ex = st.tuples(st.just('var'), st.integers(0, 7)).map(list)
    if existing_only:
        return ex
    return st.one_of(ex, ex, ex, st.tuples(st.just('new'), st.sampled_from(['Q', 'x', 'Zed', 'total', 'n', 'status2', 'X_1'])).map(list),
                     st.tuples(st.just('near'), st.integers(0, 7)).map(list),
                     st.tuples(st.just('under'), st.integers(0, 7)).map(list))


def op_strategy(n, *, existing_only=False, with_solve=False):
    from hypothesis import strategies as st
    o = operands(n)
    nm = name_selectors(existing_only)
    pos = st.integers(0, max(0, n - 1))
    opt_pos = st.one_of(st.none(), pos)
    ops = [
        st.tuples(st.just('setattr'), nm, o).map(list),
        st.tuples(st.just('setitem'), nm, o).map(list),
        st.tuples(st.just('setlabel'), nm, pos, o).map(list),
        st.tuples(st.just('setslice'), nm, opt_pos, opt_pos, st.sampled_from([None, 1, 2]), o).map(list),
        st.tuples(st.just('replace_values'), st.lists(st.tuples(nm, o).map(list), min_size=1, max_size=3)).map(list),
        st.tuples(st.just('values'), st.one_of(o, st.sampled_from([{'scalar': 4}, {'scalar': 0.5}]))).map(list),
        st.tuples(st.just('inplace'), name_selectors(True), pos, st.sampled_from([9, 1.5, True, 'nan'])).map(list),
    ]
    if not existing_only:
        ops += [
            st.tuples(st.just('add_variable'), nm, o, st.sampled_from([None, None, 'float', 'int', 'bool', 'str', 'U2'])).map(list),
            st.tuples(st.just('add_attribute'), st.sampled_from(['note', 'X', 'span', 'k', 'index', 's', 'sub', 'models', 'e', 'pan', 'tes', 'x']), st.sampled_from([1, {'s': 'v'}])).map(list),
            st.tuples(st.just('strict'), st.booleans(), st.sampled_from([0, 0, 1, 2])).map(list),
        ]
    if with_solve:
        ops.append(st.just(['solve']))
    return st.one_of(*ops)
