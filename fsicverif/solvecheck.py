"""Shared harness: run fsic's per-period solver and the reference machine on twin states and compare."""
import warnings

import numpy as np

from . import env  # noqa: F401
from .represent import Rep
from . import grammar as G
from . import reference as R
from . import refsolver, scripted
from .util import attempt, same_array

from . import snapshot, spans
from .core import Result

import fsic

OPT_KEYS = ('min_iter', 'max_iter', 'tol', 'offset', 'failures', 'errors', 'catch_first_error')


def ref_state(model_values, n):
    return {'values': {k: np.array(v, dtype=float) for k, v in model_values.items()},
            'status': ['-'] * n, 'iterations': [-1] * n}


def state_of(model, names):
    return {'values': {k: np.asarray(model.__dict__['_' + k]).copy() for k in names},
            'status': [str(x) for x in model.status], 'iterations': [int(x) for x in model.iterations]}


def compare_states(res, prefix, model, ref, names, detail):
    """Compare statuses, iteration counts and every value. Returns True if all equal."""
    ok = True
    st = [str(x) for x in model.status]
    if st != ref['status']:
        res.fail(f'{prefix}/status', f'{detail}: status {st}, reference {ref["status"]}')
        ok = False
    it = [int(x) for x in model.iterations]
    if it != ref['iterations']:
        res.fail(f'{prefix}/iterations', f'{detail}: iterations {it}, reference {ref["iterations"]}')
        ok = False
    for name in names:
        if not same_array(np.asarray(model.__dict__['_' + name]), ref['values'][name]):
            res.fail(f'{prefix}/values', f'{detail}: {name} = {np.asarray(model.__dict__['_' + name]).tolist()}, '
                     f'reference {ref["values"][name].tolist()}')
            ok = False
            break
    alphabet = set(st) - set('-.FES')
    if alphabet:
        res.fail(f'{prefix}/status-alphabet', f'{detail}: unexpected status values {sorted(alphabet)}')
    return ok


def outcome_of(out):
    """(returned, exc name, cause name) of an attempt() Outcome."""
    if out.ok:
        return (out.value, None, None)
    cause = getattr(out.exc, '__cause__', None)
    return (None, type(out.exc).__name__, type(cause).__name__ if cause is not None else None)


def compare_outcome(res, prefix, got, want, detail):
    """got: attempt() Outcome of the fsic call; want: RefOutcome. Returns True if they agree."""
    returned, exc, cause = outcome_of(got)
    if want.loose:
        if exc not in ('ValueError', 'SolutionError', 'NonConvergenceError') and not got.ok:
            res.fail(f'{prefix}/exception-type-invalid-errors', f'{detail}: {got!r}')
            return False
        return True
    if exc != want.exc:
        res.fail(f'{prefix}/exception-type', f'{detail}: fsic {got!r}, reference {want!r}')
        return False
    if exc is None and bool(returned) != bool(want.returned) or (exc is None and not isinstance(returned, (bool, np.bool_))):
        res.fail(f'{prefix}/return-value', f'{detail}: fsic returned {returned!r}, reference {want.returned!r}')
        return False
    if exc == 'SolutionError' and want.cause is not None and cause != want.cause:
        res.fail(f'{prefix}/exception-cause', f'{detail}: SolutionError chained to {cause}, reference {want.cause}')
        return False
    if exc == 'SolutionError' and want.cause is None and cause is not None:
        res.fail(f'{prefix}/exception-cause', f'{detail}: SolutionError chained to {cause}, reference: no original exception')
        return False
    return True


def opts_text(opts):
    return ', '.join(f'{k}={opts[k]!r}' for k in OPT_KEYS if k in opts)


# -- parser-built models --------------------------------------------------------------------------


def ref_program_evaluate(ref, labels):
    """evaluate callback for the reference machine: one reference Gauss-Seidel pass under the stated warnings regime."""
    def evaluate(state, T, k, strict):
        ns = R.RefNS(state['values'], labels)
        with warnings.catch_warnings():
            warnings.simplefilter('error' if strict else 'ignore')
            R.ref_evaluate(ref, ns, T)
    return evaluate


# -- scripted models against the reference machine ----------------------------------------------------

NAMES = ['A', 'B', 'C']


def build(case):
    nv = case.get('nvars', 1)
    endo = NAMES[:nv]
    cls = scripted.make_class(endo, check=case.get('check'))
    desc = case.get('span') or {'k': 'range', 'start': 0, 'n': case.get('n', 3), 'step': 1}
    span = spans.build(desc)
    n = len(span)
    init = {nm: np.array(case.get('init', {}).get(nm, [1.0 + i for i in range(n)]), dtype=float) for nm in endo + ['X']}
    mixed = case.get('mixed')
    if mixed:
        # model dtype int / float32 with a float64 variable added afterwards and put on the check list
        m = cls(span, dtype={'int': int, 'float32': np.float32}[mixed], **{k: v.copy() for k, v in init.items()})
        m.add_variable('R', np.array(case.get('init', {}).get('R', [0.0] * n), dtype=float), dtype=float)
        m.check = list(m.check) + ['R'] if case.get('check') is None else list(case['check'])
        init = {k: np.asarray(m[k]).astype(float) for k in endo + ['X', 'R']}
        scripted.arm(m, case.get('script'), case.get('hooks'))
        return m, endo + ['R'], list(m.check), init, n, desc
    m = cls(span, **{k: v.copy() for k, v in init.items()})
    scripted.arm(m, case.get('script'), case.get('hooks'))
    return m, endo, list(cls.CHECK), init, n, desc


def boundary(case, ref_out, ref_state_, T):
    opts = case['opts']
    k = ref_state_['iterations'][T]
    tags = []
    if opts['max_iter'] == 0:
        tags.append('max_iter=0')
    if k == opts.get('min_iter', 0) and k > 0:
        tags.append('k=min_iter')
    if k == opts['max_iter']:
        tags.append('k=max_iter')
    return tags


def has_fault(script, init=None):
    for toks in script.values():
        for _, tok in toks:
            if tok == 'warn' or (isinstance(tok, list) and (tok[0] in ('raise', 'warn') or (tok[0] == 'set' and isinstance(tok[1], str)))):
                return True
    return False


def key_class(case, script, opts):
    if opts['max_iter'] == 0:
        return 'max_iter=0'
    if has_fault(script) or case.get('preexisting') or opts.get('errors', 'raise') != 'raise':
        return 'errors=' + str(opts.get('errors', 'raise'))
    if case.get('hooks'):
        return 'hooks'
    return 'offset' if opts.get('offset') else 'general'


def _check_scripted_solve(case, res, m, endo, check, init, n, opts, ref, b, a, script):
    """solve() over the whole span against the fold of the reference machine (stops at the first exception)."""
    rep = Rep(case.get('rep'))
    got = attempt(m.solve, **rep.opts(opts))
    rep.tag(res)
    flags, want = [], None
    for T in range(n):
        want = refsolver.solve_t(ref, T, n, check=check, endogenous=endo,
                                 evaluate=scripted.ref_evaluate_cb(script), before=b, after=a, **opts)
        if want.exc:
            break
        flags.append(bool(want.returned))
    cls = key_class(case, script, opts)
    detail = f'solve() over {n} periods, {opts_text(opts)}, script={script}, init={case.get("init")}'
    res.nontrivial = True
    if want is not None and want.exc:
        compare_outcome(res, f'solve/{cls}', got, want, detail)
    elif not got.ok:
        res.fail(f'solve/{cls}/exception-type', f'{detail}: fsic {got!r}, reference returns {flags}')
    else:
        labels, idx, solved = got.value
        if list(idx) != list(range(n)) or [bool(x) for x in solved] != flags:
            res.fail(f'solve/{cls}/return-value', f'{detail}: fsic {got.value!r}, reference flags {flags}')
    if want is None or want.exc not in ('ValueError',):
        compare_states(res, f'solve/{cls}', m, ref, endo + ['X'], detail)
    return res


def apply_history(case, res, m, ref, t, T, n, endo, check, init, opts, script, b, a, desc):
    """What happened to the object (and to the process) before the measured call. Every step is either without effect
    on the expected outcome or mirrored on the reference state:
        'rebind'         every series re-assigned as a list of its own values (new array objects, same contents)
        'copy'           the object replaced by its copy()
        'warm-same'      the same period solved once before (mirrored), then the values put back by whole-series assignment
        'warm-other'     another period solved first with the same options (mirrored)
        'sibling-first'  another instance, whose span has the same labels at other positions, solved first
    """
    names = [nm for nm in endo + ['X'] if nm in ref['values']]

    def mirror(tt):
        return refsolver.solve_t(ref, tt, n, check=check, endogenous=endo,
                                 evaluate=scripted.ref_evaluate_cb(script), before=b, after=a, **opts)

    def forget_logs(obj):
        for key in ('_log', '_vals'):
            if key in obj.__dict__:
                del obj.__dict__[key][:]

    for h in case.get('history') or []:
        res.tag('history:' + h)
        if h == 'rebind':
            for nm in names:
                setattr(m, nm, np.asarray(m[nm]).tolist())
        elif h == 'copy':
            m = m.copy()
        elif h == 'warm-same' and case.get('entry') != 'solve':
            attempt(m.solve_t, t, **opts)
            mirror(t)
            for nm in names:
                setattr(m, nm, [float(v) for v in init[nm]])
                ref['values'][nm] = np.array(init[nm], dtype=float)
            forget_logs(m)
        elif h == 'warm-other' and n >= 2 and case.get('entry') != 'solve':
            t2 = (T + 1) % n
            attempt(m.solve_t, t2, **opts)
            mirror(t2)
            forget_logs(m)
        elif h == 'sibling-first' and n >= 2 and desc.get('k') == 'range':
            sib_desc = dict(desc, start=desc['start'] - 1)
            sib, *_ = build(dict(case, span=sib_desc, mixed=None, init={}))
            for label in spans.labels(sib_desc):
                attempt(sib.solve_period, label, max_iter=1, failures='ignore', errors='ignore')
            attempt(sib.solve, max_iter=1, failures='ignore', errors='ignore')
    return m


HISTORIES = [[], [], [], ['rebind'], ['copy'], ['warm-same'], ['warm-other'], ['sibling-first'], ['warm-same', 'rebind'],
             ['copy', 'warm-other'], ['sibling-first', 'warm-same']]


def with_history(gen):
    """Wrap an enumerating generator: every fourth case gets a history (cycled); a third of the cases that do not name an
    entry point request the period by label (solve_period)."""
    def wrapped():
        import zlib
        for i, case in enumerate(gen()):
            # (a deterministic scramble rather than a stride, so that histories are not correlated with the other cycled options)
            z = zlib.crc32(b'history%d' % i)
            if z % 4 == 0 and 'history' not in case:
                case = dict(case, history=HISTORIES[3 + (z >> 8) % (len(HISTORIES) - 3)])
            if (z >> 16) % 3 == 0 and 'span' not in case and not case.get('mixed'):
                # the same labels at other positions than in the neighbouring cases (integer spans with another origin)
                n_ = case.get('n', 3)
                origin = [1, -1, 2, 7][(z >> 20) % 4]
                kind = (z >> 22) % 4
                if kind == 1:       # ... or a NumPy array of integer labels / of string labels / a plain list
                    span_ = {'k': 'np', 'items': list(range(origin, origin + n_))}
                elif kind == 2:
                    span_ = {'k': 'np', 'items': ['p%d' % (origin + i) for i in range(n_)]}
                elif kind == 3:
                    span_ = {'k': 'list', 'items': list(range(origin, origin + n_))}
                else:
                    span_ = {'k': 'range', 'start': origin, 'n': n_, 'step': 1}
                case = dict(case, span=span_)
            if (z >> 24) % 3 == 0 and 'entry' not in case:
                case = dict(case, entry='solve_period')      # the same period requested by label
            yield case
    return wrapped


def check_scripted(case):
    opts = dict(case['opts'])
    m, endo, check, init, n, desc = build(case)
    t = case['t']
    T = t + n if t < 0 else t
    res = Result(classes=['scripted', 'entry:' + case.get('entry', 'solve_t')])
    script = case.get('script') or {}
    ref = ref_state(init, n)
    b, a = scripted.ref_hooks(case.get('hooks'))
    m = apply_history(case, res, m, ref, t, T, n, endo, check, init, opts, script, b, a, desc)
    before_snap = snapshot.snapshot(m)
    if case.get('entry') == 'solve':
        return _check_scripted_solve(case, res, m, endo, check, init, n, opts, ref, b, a, script)
    rep = Rep(case.get('rep'))
    if case.get('entry') == 'solve_period':
        label = spans.labels(desc)[T]
        got = attempt(m.solve_period, label, **rep.opts(opts))
    else:
        got = attempt(m.solve_t, rep.int(t), **rep.opts(opts))
    rep.tag(res)

    want = refsolver.solve_t(ref, t, n, check=check, endogenous=endo,
                             evaluate=scripted.ref_evaluate_cb(script), before=b, after=a, **opts)
    has_move = any(tok != 'same' for toks in script.values() for _, tok in toks)
    tags = boundary(case, want, ref, T) if want.exc in (None, 'NonConvergenceError') else []
    tol = opts.get('tol', 1e-10)
    if any(isinstance(tok, list) and tok[0] == 'move' and abs(tok[1]) == tol for toks in script.values() for _, tok in toks):
        tags.append('moved-by-exactly-tol')
    res.tag(*tags)
    res.nontrivial = has_move and bool(tags)
    cls = key_class(case, script, opts)
    detail = f'{len(endo)} var(s), t={t}, {opts_text(opts)}, script={script}'
    ok = compare_outcome(res, f'solve_t/{cls}', got, want, detail)
    if want.loose:
        alphabet = set(str(x) for x in m.status) - set('-.FES')
        if alphabet:
            res.fail(f'solve_t/{cls}/status-alphabet', f'{detail}: unexpected status values {sorted(alphabet)}')
        return res
    if want.exc in ('ValueError', 'IndexError'):
        d = snapshot.first_diff_key(before_snap, snapshot.snapshot(m), ignore=('d._log', 'd._vals'))
        if d:
            res.fail(f'solve_t/{cls}/rejected-call-changed-state', f'{detail}: changed {d}')
        return res
    ok = compare_states(res, f'solve_t/{cls}', m, ref, [nm for nm in endo + ['X'] if nm in ref['values']], detail) and ok
    log = m.__dict__['_log']
    evals = [e for e in log if e[0] == 'eval']
    if [e[2] for e in evals] != want.iteration_args:
        res.fail(f'solve_t/{cls}/passes', f'{detail}: evaluation passes received iteration={[e[2] for e in evals]}, '
                 f'reference {want.iteration_args}')
    nb = sum(1 for e in log if e[0] == 'before')
    na = sum(1 for e in log if e[0] == 'after')
    if nb != want.before_calls or na != want.after_calls:
        res.fail(f'solve_t/{cls}/hook-counts', f'{detail}: before x{nb}, after x{na}; reference {want.before_calls}, {want.after_calls}')
    elif log and ((nb and log[0][0] != 'before') or (na and log[-1][0] != 'after')):
        res.fail(f'solve_t/{cls}/hook-order', f'{detail}: call log {log}')
    if any(e[1] != T for e in log):
        res.fail(f'solve_t/{cls}/other-period-evaluated', f'{detail}: call log {log}')
    return res


