"""Import `fsic` from the tree under test (default /repo; FSIC_VERIF_REPO overrides it).

"Rebuild from the current working tree" for a pure-Python package means: put the
tree first on sys.path in every check process and assert that this is the copy
that was imported.  Exit 2 (harness error) otherwise.
"""
import os
import sys
import warnings

REPO = os.path.realpath(os.environ.get('FSIC_VERIF_REPO', '/repo'))
VERIF = os.path.dirname(os.path.dirname(os.path.abspath(__file__)))

if REPO not in sys.path[:1]:
    sys.path.insert(0, REPO)

# Harness-wide: warnings raised outside fsic's own `catch_warnings()` blocks are
# noise for us (fsic installs its own filters wherever they matter).
warnings.simplefilter('ignore')

try:
    import fsic  # noqa: E402
except Exception as e:  # pragma: no cover
    sys.stderr.write(f'HARNESS-ERROR: cannot import fsic from {REPO}: {e!r}\n')
    sys.exit(2)

if not os.path.realpath(fsic.__file__).startswith(REPO + os.sep):
    sys.stderr.write(
        f'HARNESS-ERROR: fsic imported from {fsic.__file__}, expected inside {REPO}\n'
    )
    sys.exit(2)

FSIC_DIR = os.path.dirname(os.path.realpath(fsic.__file__))
