"""Small shared helpers: JSON encoding of floats / labels, NaN-aware comparison, call wrappers."""
import math
import warnings

import numpy as np


def enc_float(v):
    """float -> JSON-safe (non-finite values as strings)."""
    v = float(v)
    if math.isnan(v):
        return 'nan'
    if math.isinf(v):
        return 'inf' if v > 0 else '-inf'
    return v


def dec_float(v):
    if isinstance(v, str):
        return float(v)
    return v


def enc_array(a):
    a = np.asarray(a)
    if a.dtype.kind == 'f':
        return [enc_float(v) for v in a.tolist()]
    return a.tolist()


def dec_array(lst, dtype=float):
    if dtype in (float, 'float'):
        return np.array([dec_float(v) for v in lst], dtype=float)
    return np.array(lst, dtype=dtype)


def same_value(a, b):
    """Exact, NaN-aware equality of two scalars."""
    try:
        if a == b:
            return True
    except Exception:  # noqa: BLE001
        return False
    try:
        return bool(a != a) and bool(b != b)
    except Exception:  # noqa: BLE001
        return False


def same_array(a, b):
    """Exact, NaN-aware equality of two array-likes including shape."""
    a = np.asarray(a)
    b = np.asarray(b)
    if a.shape != b.shape:
        return False
    if a.dtype.kind in 'fc' or b.dtype.kind in 'fc':
        try:
            return bool(np.array_equal(a, b, equal_nan=True))
        except TypeError:
            pass
    if a.dtype.kind == 'O' or b.dtype.kind == 'O':
        return all(same_value(x, y) for x, y in zip(a.ravel().tolist(), b.ravel().tolist()))
    return bool(np.array_equal(a, b))


class Outcome:
    """Result of calling code under test: either a value or an exception."""

    __slots__ = ('ok', 'value', 'exc')

    def __init__(self, ok, value=None, exc=None):
        self.ok = ok
        self.value = value
        self.exc = exc

    @property
    def exc_name(self):
        return None if self.exc is None else type(self.exc).__name__

    def __repr__(self):
        if self.ok:
            return f'returned {self.value!r}'[:300]
        return f'raised {type(self.exc).__name__}: {self.exc}'[:300]


def attempt(fn, *args, **kwargs):
    try:
        return Outcome(True, fn(*args, **kwargs))
    except (KeyboardInterrupt, SystemExit):
        raise
    except BaseException as e:  # noqa: BLE001
        return Outcome(False, exc=e)


def quiet(fn, *args, **kwargs):
    with warnings.catch_warnings():
        warnings.simplefilter('ignore')
        return fn(*args, **kwargs)
