"""Reference evaluator for programs of grammar G (built from the generator's AST, never from fsic output)."""
import ast
import warnings

import numpy as np

from . import grammar as G
from . import spans
from .recarray import RecArray


class RefNS:
    """Stands in for `self` when the expected statements are executed."""

    def __init__(self, arrays, labels, log=None):
        object.__setattr__(self, '_arrays', arrays)
        object.__setattr__(self, '_labels', labels)
        for name, arr in arrays.items():
            object.__setattr__(self, '_' + name, arr if log is None else RecArray(arr, name, log))

    def __getitem__(self, key):
        name, label = key
        p = spans.pos(self._labels, label)
        if p is None:
            raise KeyError(label)
        return getattr(self, '_' + name)[p]

    def __setitem__(self, key, value):
        name, label = key
        p = spans.pos(self._labels, label)
        if p is None:
            raise KeyError(label)
        getattr(self, '_' + name)[p] = value


_COMPILED = {}


def compiled_statement(s):
    key = G.dump(G.statement_pyast(s)) if s[0] != 'block' else ('block', s[1])
    c = _COMPILED.get(key)
    if c is None:
        mod = G.statement_pyast(s)
        ast.fix_missing_locations(mod)
        c = compile(mod, '<reference>', 'exec')
        if len(_COMPILED) > 20000:
            _COMPILED.clear()
        _COMPILED[key] = c
    return c


def ref_evaluate(ref, ns, t):
    """One Gauss-Seidel pass in symbol-list order."""
    g = {'np': np, 'self': ns, 't': t}
    for s in ref.eval_order:
        exec(compiled_statement(s), g)


def make_data(names, n, bases):
    """Deterministic data table: value[name][i] = bases[name][i % len] + 0.25 * i (distinct per position)."""
    out = {}
    for k, name in enumerate(names):
        b = bases[k % len(bases)] if bases else [1.0]
        out[name] = np.array([float(b[i % len(b)]) + 0.25 * i for i in range(n)], dtype=float)  # float('nan') etc. decode
    return out


def mixed_span(n):
    """Span whose even positions are strings 'p<i>' and odd positions the ints i (for named periods)."""
    return [('p%d' % i) if i % 2 == 0 else i for i in range(n)]


class EquationToCode(ast.NodeTransformer):
    """Map a normalised equation (`Y[t] = a[t] * exp(X[t-1])`) to the code the statement of C01 prescribes."""

    def visit_Subscript(self, node):
        if isinstance(node.value, ast.Name):
            name = node.value.id
            sl = node.slice
            if _is_t_index(sl):
                return ast.Subscript(
                    value=ast.Attribute(value=ast.Name(id='self', ctx=ast.Load()), attr='_' + name, ctx=ast.Load()),
                    slice=sl, ctx=node.ctx)
            return ast.Subscript(
                value=ast.Name(id='self', ctx=ast.Load()),
                slice=ast.Tuple(elts=[ast.Constant(value=name), sl], ctx=ast.Load()), ctx=node.ctx)
        return self.generic_visit(node)

    def visit_Call(self, node):
        self.generic_visit(node)
        if isinstance(node.func, ast.Name) and node.func.id in G.REPLACED:
            node.func = G._func_pyast(G.REPLACED[node.func.id])
        return node


def _is_t_index(sl):
    if isinstance(sl, ast.Name) and sl.id == 't':
        return True
    if isinstance(sl, ast.BinOp) and isinstance(sl.left, ast.Name) and sl.left.id == 't' \
            and isinstance(sl.op, (ast.Add, ast.Sub)) and isinstance(sl.right, ast.Constant):
        return True
    return False


def equation_as_code_dump(equation):
    """ast dump of the code that the normalised equation text denotes (backticked fragments unwrapped)."""
    import re
    text = re.sub(r'`(.+?)`', r'(\1)', equation)
    tree = ast.parse(text)
    tree = EquationToCode().visit(tree)
    return G.dump(tree)


def quiet_call(fn, *args, **kwargs):
    with warnings.catch_warnings():
        warnings.simplefilter('ignore')
        return fn(*args, **kwargs)
