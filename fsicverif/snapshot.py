"""Full observable state of a container / model / linker as a plain comparable structure."""
import numpy as np

CLASS_ATTRS = ('NAMES', 'ENDOGENOUS', 'EXOGENOUS', 'PARAMETERS', 'ERRORS', 'CHECK',
               'LAGS', 'LEADS', 'ALIASES', 'PREFERRED_NAMES', 'TRACE_VARIABLES')


def _plain(v, depth=0):
    """Convert a value to a comparable plain structure (NaN-aware through bytes/repr)."""
    if depth > 6:
        return ('deep', repr(type(v)))
    if isinstance(v, np.ndarray):
        if v.dtype.kind == 'O':
            return ('ndarray', 'O', v.shape, tuple(_plain(x, depth + 1) for x in v.ravel().tolist()))
        return ('ndarray', v.dtype.str, v.shape, v.tobytes())
    if isinstance(v, np.generic):
        return ('npscalar', v.dtype.str, v.tobytes())
    if isinstance(v, float):
        return ('float', repr(v))
    if isinstance(v, (str, int, bool, type(None), bytes)):
        return v
    if isinstance(v, (list, tuple)):
        return (type(v).__name__, tuple(_plain(x, depth + 1) for x in v))
    if isinstance(v, range):
        return ('range', v.start, v.stop, v.step)
    if isinstance(v, dict):
        return ('dict', tuple((_plain(k, depth + 1), _plain(x, depth + 1)) for k, x in v.items()))
    if isinstance(v, (set, frozenset)):
        return ('set', tuple(sorted(repr(x) for x in v)))
    tn = type(v).__name__
    if tn == 'Trace':
        return ('Trace', _plain(list(v.names), depth + 1), _plain(list(v.index), depth + 1),
                _plain(v.values, depth + 1))
    try:
        import pandas as pd
        if isinstance(v, pd.Index):
            return ('pdIndex', type(v).__name__, str(v.dtype), tuple(str(x) for x in v),
                    getattr(v, 'freqstr', None))
        if isinstance(v, (pd.Period, pd.Timestamp)):
            return (type(v).__name__, str(v))
    except ImportError:  # pragma: no cover
        pass
    if hasattr(v, '__dict__') and hasattr(v, 'span') and 'index' in v.__dict__:
        return snapshot(v, depth + 1)
    if isinstance(v, type):
        return ('class', v.__module__, v.__qualname__)
    if callable(v):
        return ('callable', getattr(v, '__qualname__', repr(v)))
    return ('obj', tn, repr(v)[:200])


def snapshot(obj, depth=0, *, with_class=True):
    """Snapshot of a VectorContainer-like object: every entry of __dict__ plus class-level lists."""
    d = obj.__dict__
    out = {'type': type(obj).__module__ + '.' + type(obj).__qualname__}
    for k in d:
        if k == 'submodels':
            out['submodels'] = tuple((_plain(sid), snapshot(sub, depth + 1)) for sid, sub in d[k].items())
        else:
            out['d.' + k] = _plain(d[k], depth)
    out['dictkeys'] = tuple(d.keys())
    if with_class:
        cls = type(obj)
        for a in CLASS_ATTRS:
            if a in ('LAGS', 'LEADS') and isinstance(getattr(cls, a, None), property):
                continue
            if hasattr(cls, a):
                out['cls.' + a] = _plain(getattr(cls, a))
    return out


def diff(a, b, path=''):
    """First differing path between two snapshots (None if equal)."""
    if type(a) is not type(b):
        return path or '<root>'
    if isinstance(a, dict):
        ka, kb = list(a.keys()), list(b.keys())
        if ka != kb:
            extra = [k for k in kb if k not in a] + [k for k in ka if k not in b]
            return f'{path}/keys({",".join(map(str, extra[:3]))})'
        for k in ka:
            r = diff(a[k], b[k], f'{path}/{k}')
            if r:
                return r
        return None
    if isinstance(a, tuple):
        if len(a) != len(b):
            return f'{path}/len'
        for i, (x, y) in enumerate(zip(a, b)):
            r = diff(x, y, f'{path}[{i}]' if not (isinstance(x, str) and i == 0) else path)
            if r:
                return r
        return None
    if a != b:
        return path or '<root>'
    return None


def first_diff_key(a, b, ignore=()):
    """Short, value-free name of the first differing component (for violation keys). Top-level entries named in
    `ignore` (the harness's own logs, say) are left out of the comparison altogether, so that a tolerated difference
    cannot hide another one behind it."""
    if ignore and isinstance(a, dict) and isinstance(b, dict):
        a = {k: v for k, v in a.items() if k not in ignore and k != 'dictkeys'}
        b = {k: v for k, v in b.items() if k not in ignore and k != 'dictkeys'}
    p = diff(a, b)
    if p is None:
        return None
    # keep only the leading component names (no positions / values)
    parts = [s.split('[')[0] for s in p.split('/') if s]
    return '/'.join(parts[:3])
