"""Recording ndarray: logs every index read / written through __getitem__ / __setitem__."""
import numpy as np


class RecArray(np.ndarray):
    def __new__(cls, array, name, log):
        obj = np.asarray(array).view(cls)
        obj._rec_name = name
        obj._rec_log = log
        return obj

    def __array_finalize__(self, obj):
        self._rec_name = getattr(obj, '_rec_name', None)
        self._rec_log = getattr(obj, '_rec_log', None)

    def __getitem__(self, index):
        log = self._rec_log
        if log is not None:
            log.append((self._rec_name, _plain(index), 'r'))
        out = super().__getitem__(index)
        if isinstance(out, RecArray):
            out = np.asarray(out)
        return out

    def __setitem__(self, index, value):
        log = self._rec_log
        if log is not None:
            log.append((self._rec_name, _plain(index), 'w'))
        super().__setitem__(index, value)


def _plain(index):
    if isinstance(index, (int, np.integer)):
        return int(index)
    if isinstance(index, slice):
        return ('slice', index.start, index.stop, index.step)
    return repr(index)


def install(model, names, log):
    """Swap the model's series for recording views (same memory)."""
    for name in names:
        model.__dict__['_' + name] = RecArray(model.__dict__['_' + name], name, log)


def uninstall(model, names):
    for name in names:
        model.__dict__['_' + name] = np.asarray(model.__dict__['_' + name])
