"""Known-findings file: committed, never written at run time.

/verif/known_findings.json:
{
  "findings": [ {"id": "...", "property": "C16", "key_glob": "...", "what": "...",
                 "witness": {"phase": "...", "case": {...}}} ],
  "fixed":    [ "fixed: property=C02 <commit> <what failed>", ... ]
}

A finding suppresses (and counts) generated cases whose violation key matches
`key_glob`, but only while its witness still reproduces; a fixed entry
suppresses nothing.
"""
import json
import os

from . import env

PATH = os.path.join(env.VERIF, 'known_findings.json')


def load(property_id):
    if not os.path.exists(PATH):
        return []
    with open(PATH) as fh:
        data = json.load(fh)
    return [f for f in data.get('findings', []) if f['property'] == property_id]
