"""Span catalogue (JSON descriptors -> span objects) and an independent pos().

Descriptor kinds
    {"k": "range", "start": a, "n": n, "step": s}
    {"k": "list",  "items": [label, ...]}            labels: str | int | float | {"t": [..]} (tuple)
    {"k": "np",    "items": [...]}                   NumPy array of int or str
    {"k": "pdindex", "items": [...]}                 pandas Index of int or str
    {"k": "period", "freq": "Y"|"Q", "start": "2000"|"2000Q1", "n": n}
    {"k": "datetime", "freq": "YS"|"D", "start": "2000-01-01", "n": n}

`pos()` is a plain equality search in list(span); it never calls fsic.
"""
import numpy as np


def dec_label(x):
    if isinstance(x, dict):
        if 't' in x:
            return tuple(dec_label(v) for v in x['t'])
        if 'period' in x:
            import pandas as pd
            return pd.Period(x['period'], freq=x['freq'])
        if 'ts' in x:
            import pandas as pd
            return pd.Timestamp(x['ts'])
        if 'td' in x:
            import datetime
            return datetime.timedelta(days=x['td'])
        if 'fs' in x:
            return frozenset(dec_label(v) for v in x['fs'])
        if 'dt64' in x:
            return np.datetime64(x['dt64'], x['unit'])
        if 'pydt' in x:
            import datetime
            return datetime.datetime.fromisoformat(x['pydt'])
        raise ValueError(x)
    return x


def enc_label(x):
    import datetime
    import pandas as pd
    if isinstance(x, datetime.timedelta) and not isinstance(x, pd.Timedelta):
        return {'td': x.days}
    if isinstance(x, frozenset):
        return {'fs': sorted(enc_label(v) for v in x)}
    if isinstance(x, tuple):
        return {'t': [enc_label(v) for v in x]}
    if isinstance(x, pd.Period):
        return {'period': str(x), 'freq': x.freqstr}
    if isinstance(x, pd.Timestamp):
        return {'ts': x.isoformat()}
    if isinstance(x, np.datetime64):
        return {'dt64': str(x), 'unit': np.datetime_data(x)[0]}
    if isinstance(x, datetime.datetime):
        return {'pydt': x.isoformat()}
    if isinstance(x, (np.integer,)):
        return int(x)
    if isinstance(x, (np.floating,)):
        return float(x)
    if isinstance(x, np.str_):
        return str(x)
    return x


def build(desc):
    k = desc['k']
    if k == 'range':
        s = desc.get('step', 1)
        return range(desc['start'], desc['start'] + s * desc['n'], s)
    if k == 'list':
        items = [dec_label(x) for x in desc['items']]
        return tuple(items) if desc.get('as') == 'tuple' else items     # a tuple is as good a sequence of labels as a list
    if k == 'np':
        return np.array(desc['items'])
    if k == 'pdindex':
        import pandas as pd
        return pd.Index(desc['items'])
    if k == 'period':
        import pandas as pd
        return pd.period_range(start=desc['start'], periods=desc['n'], freq=desc['freq'])
    if k == 'datetime':
        import pandas as pd
        return pd.date_range(start=desc['start'], periods=desc['n'], freq=desc['freq'])
    raise ValueError(desc)


def labels(desc):
    """list(span) as Python objects (NumPy scalars converted to Python scalars)."""
    span = build(desc)
    out = []
    for x in span:
        if isinstance(x, np.generic):
            x = x.item()
        out.append(x)
    return out


def is_pandas(desc):
    return desc['k'] in ('pdindex', 'period', 'datetime')


def spellings(desc, label):
    """Alternative ways of writing `label` that must address the same period."""
    out = [label]
    k = desc['k']
    if k == 'period':
        out.append(str(label))
    elif k == 'datetime':
        out.append(label.strftime('%Y-%m-%d'))
        if desc['freq'] == 'D':
            out.append(label.isoformat())
        # the same instant as NumPy's datetime64 (in several units) and as a plain datetime: pandas resolves them all
        out.append(np.datetime64(label.isoformat(), 'ns'))
        out.append(np.datetime64(label.isoformat(), 's'))
        if label == label.normalize():
            out.append(np.datetime64(label.strftime('%Y-%m-%d'), 'D'))
        out.append(label.to_pydatetime())
    return out


def odd_absent_labels(desc):
    """Hashable values of a type no label of the span has (so they are certainly unknown labels): a (year, quarter)
    tuple, a one-element tuple, a timedelta, a frozenset, a float between two integers."""
    import datetime
    labs = labels(desc)
    cands = [(2000, 1), ('zz',), datetime.timedelta(days=1), frozenset([1]), 3.25, None]
    return [c for c in cands if pos(labs, c) is None]


def absent_labels(desc):
    """A few labels that are not in the span (same flavour as the span's labels)."""
    k = desc['k']
    labs = labels(desc)
    if k == 'range':
        s = desc.get('step', 1)
        out = [desc['start'] - s, desc['start'] + s * desc['n']]
        if s > 1 and desc['n'] > 1:
            out.append(desc['start'] + 1)  # between two labels
        return out
    if k == 'np' and labs:
        # near misses that a cast into the array's dtype would collapse onto a present label
        if isinstance(labs[0], str):
            near = [labs[-1] + 'zz', labs[0] + ' ', 7]
        else:
            near = [labs[0] + 0.5, str(labs[0]), labs[-1] + 0.25]
        return [c for c in near if spans_pos_none(labs, c)] + [c for c in (['zz', ''] if isinstance(labs[0], str) else [99, -7])
                                                               if c not in labs][:1]
    if k in ('list', 'np', 'pdindex'):
        cands = ['zz', 'A', 99, -7, 3.25]
        if k != 'list':
            # homogeneous containers: keep the flavour (str or int)
            if labs and isinstance(labs[0], str):
                cands = ['zz', 'A', '']
            else:
                cands = [99, -7]
        return [c for c in cands if c not in labs][:2]
    if k == 'period':
        import pandas as pd
        first = labs[0] if labs else pd.Period(desc['start'], freq=desc['freq'])
        last = labs[-1] if labs else first
        return [first - 1, last + 1, str(last + 2)]
    if k == 'datetime':
        import pandas as pd
        idx = build(desc)
        off = idx.freq
        first = labs[0] if labs else pd.Timestamp(desc['start'])
        last = labs[-1] if labs else first
        return [first - off, last + off, (last + 2 * off).strftime('%Y-%m-%d')]
    raise ValueError(desc)


def spans_pos_none(labs, label):
    return pos(labs, label) is None


def pos(labs, label):
    """Position of `label` in the list of labels, by ==; None if absent."""
    import pandas as pd
    for i, x in enumerate(labs):
        if isinstance(x, pd.Period) and isinstance(label, str):
            try:
                if pd.Period(label, freq=x.freq) == x and _same_resolution(label, x):
                    return i
            except Exception:  # noqa: BLE001
                pass
            continue
        if isinstance(x, pd.Timestamp) and isinstance(label, np.datetime64):
            if pd.Timestamp(label) == x:
                return i
            continue
        if isinstance(x, pd.Timestamp) and isinstance(label, str):
            try:
                if pd.Timestamp(label) == x:
                    return i
            except Exception:  # noqa: BLE001
                pass
            continue
        try:
            if type(x) is tuple or type(label) is tuple:
                if type(x) is type(label) and x == label:
                    return i
                continue
            if x == label:
                return i
        except Exception:  # noqa: BLE001
            continue
    return None


def _same_resolution(text, period):
    """'2000' is not a spelling of the quarter 2000Q1 (it denotes the whole year)."""
    return str(period) == text


# -- catalogue ----------------------------------------------------------------


def catalogue(max_len, min_len=0, *, pandas=True):
    """All span descriptors of the catalogue with lengths min_len..max_len."""
    out = []
    str_labels = ['a', '', 'x1', 'Q', 'zed', 'b', 'B']
    mixed = ['a', 0, 2.5, {'t': [1, 2]}, -1, 'b', 7]
    for n in range(min_len, max_len + 1):
        out.append({'k': 'range', 'start': 3, 'n': n, 'step': 1})
        out.append({'k': 'range', 'start': -2, 'n': n, 'step': 1})
        out.append({'k': 'range', 'start': 1990, 'n': n, 'step': 5})
        out.append({'k': 'list', 'items': str_labels[:n]})
        out.append({'k': 'list', 'items': mixed[:n]})
        out.append({'k': 'list', 'items': list(range(-1, n - 1))})
        out.append({'k': 'list', 'items': str_labels[:n][::-1], 'as': 'tuple'})
        out.append({'k': 'np', 'items': list(range(2000, 2000 + n))})
        out.append({'k': 'np', 'items': [-1, 0, 4, 2, 9, 7, 3][:n]})
        out.append({'k': 'np', 'items': str_labels[:n]})
        if pandas:
            out.append({'k': 'pdindex', 'items': list(range(10, 10 + n))})
            out.append({'k': 'pdindex', 'items': str_labels[:n]})
            out.append({'k': 'period', 'freq': 'Y', 'start': '2000', 'n': n})
            out.append({'k': 'period', 'freq': 'Q', 'start': '1999Q3', 'n': n})
            out.append({'k': 'datetime', 'freq': 'YS', 'start': '2000-01-01', 'n': n})
            out.append({'k': 'datetime', 'freq': 'D', 'start': '2001-02-27', 'n': n})
    return out


def catalogue_long():
    """A few longer spans (beyond the exhaustive length bound) for the random phases."""
    out = []
    for n in (9, 16):
        out.append({'k': 'range', 'start': 1990, 'n': n, 'step': 1})
        out.append({'k': 'range', 'start': -4, 'n': n, 'step': 3})
        out.append({'k': 'list', 'items': ['p%02d' % i for i in range(n)]})
        out.append({'k': 'list', 'items': list(range(1, n + 1)), 'as': 'tuple'})
        out.append({'k': 'np', 'items': list(range(100, 100 + 2 * n, 2))})
        out.append({'k': 'period', 'freq': 'Q', 'start': '1999Q3', 'n': n})
        out.append({'k': 'datetime', 'freq': 'D', 'start': '2001-02-20', 'n': n})
        out.append({'k': 'pdindex', 'items': list(range(-n // 2, n - n // 2))})
    return out
