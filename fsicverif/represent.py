"""Representation layer: the same argument value in another, equally legal Python / NumPy representation.

The statements quantify over option *values* (an offset of -1, a tolerance of 0.5, strict on, the selection ['a', 'b'],
the name 'GDP'), not over the Python type that carries the value.  A `Rep` object turns plain values into equivalent
representations according to a tape of small integers drawn by the case generator (an empty tape, or zeros, leave
everything plain), so that every oracle - which is computed from the plain values - stays valid.

    ints    int | np.int64 | np.int32 | np.intp            (never bool)
    bools   bool | np.bool_ | int (0 / 1)
    floats  float | np.float64 | int when the value is integral | np.float32 when the value is exactly representable
    lists   list | tuple | dict-keys view (unique hashables) | np.ndarray (all str or all int)
    strs    str | np.str_ | a str subclass
    dicts   dict | types.MappingProxyType | collections.ChainMap | collections.UserDict
    solver options equal to their documented default: passed | left out

One-shot iterators are not produced (an argument that is iterated once per period would be exhausted).
"""
import collections
import types

import numpy as np


class StrSub(str):
    """A user-defined subclass of str (equal to, and hashing like, the plain string)."""


INT_KEYS = ('min_iter', 'max_iter', 'offset')
FLOAT_KEYS = ('tol',)
BOOL_KEYS = ('catch_first_error',)
# the documented defaults, identical at every solve entry point (models, linkers, the Fortran engine): passing the default
# explicitly and leaving the argument out denote the same call
DEFAULTS = {'min_iter': 0, 'max_iter': 100, 'tol': 1e-10, 'offset': 0, 'failures': 'raise', 'errors': 'raise',
            'catch_first_error': True}


class Rep:
    def __init__(self, tape=None):
        self.tape = [int(x) for x in (tape or [])]
        self.i = 0
        self.nonplain = 0

    def _next(self, n):
        if not self.tape:
            return 0
        k = self.tape[self.i % len(self.tape)] % n
        self.i += 1
        if k:
            self.nonplain += 1
        return k

    def int(self, v):
        if isinstance(v, bool) or not isinstance(v, int):
            return v
        k = self._next(4)
        return [v, np.int64(v), np.int32(v), np.intp(v)][k]

    def bool(self, v):
        if not isinstance(v, bool):
            return v
        k = self._next(3)
        return [v, np.bool_(v), int(v)][k]

    def float(self, v):
        if isinstance(v, bool) or not isinstance(v, (int, float)):
            return v
        k = self._next(4)
        f = float(v)
        if k == 1:
            return np.float64(f)
        if k == 2 and f.is_integer() and abs(f) < 2 ** 31:
            return int(f)
        if k == 3 and float(np.float32(f)) == f:
            return np.float32(f)
        if k:
            self.nonplain -= 1
        return v

    def seq(self, v):
        items = list(v)
        k = self._next(4)
        if k == 1:
            return tuple(items)
        if k == 2:
            try:
                if len(set(items)) == len(items):
                    return dict.fromkeys(items).keys()
            except TypeError:
                pass
            return tuple(items)
        if k == 3:
            if items and (all(type(x) is str for x in items) or all(type(x) is int for x in items)):
                return np.array(items)
            return tuple(items)
        return items

    def str(self, v):
        if type(v) is not str:
            return v
        k = self._next(3)
        return [v, np.str_(v), StrSub(v)][k]

    def mapping(self, d):
        if d is None:
            return None
        k = self._next(4)
        if k == 1:
            return types.MappingProxyType(dict(d))
        if k == 2:
            return collections.ChainMap(dict(d))
        if k == 3:
            return collections.UserDict(dict(d))
        return dict(d)

    def opts(self, opts):
        """Solver options in other representations (same values)."""
        out = {}
        for key, v in (opts or {}).items():
            if key in DEFAULTS and type(v) is type(DEFAULTS[key]) and v == DEFAULTS[key] and self._next(3) == 1:
                continue                       # the default value: the argument is left out
            if key in INT_KEYS:
                out[key] = self.int(v)
            elif key in FLOAT_KEYS:
                out[key] = self.float(v)
            elif key in BOOL_KEYS:
                out[key] = self.bool(v)
            else:
                out[key] = v
        return out

    def flags(self, flags, defaults):
        """Boolean keyword flags in other representations; a flag that has its documented default value may be left out."""
        out = {}
        for key, v in flags.items():
            if key in defaults and v == defaults[key] and self._next(3) == 1:
                continue
            out[key] = self.bool(v)
        return out

    def tag(self, res):
        if self.nonplain:
            res.tag('representation:non-plain')


def tapes(max_size=6):
    """Hypothesis strategy for a representation tape (shrinks towards the plain representation)."""
    from hypothesis import strategies as st
    return st.one_of(st.just([]), st.lists(st.integers(0, 11), min_size=1, max_size=max_size))


def cycle_tape(i):
    """Deterministic tape for enumerated phases: about every third case is re-represented (a scramble of the case number
    rather than a stride, so that the choice is not correlated with other options cycled by the generators)."""
    import zlib
    z = zlib.crc32(b'rep%d' % i)
    if z % 3:
        return []
    z >>= 4
    return [1 + z % 3, 1 + (z >> 3) % 3, 1 + (z >> 6) % 3, (z >> 9) % 4]


def with_rep(gen):
    """Wrap an enumerating generator function: cases get a deterministic 'rep' tape (unless they carry one)."""
    def wrapped():
        for i, case in enumerate(gen()):
            if 'rep' not in case:
                t = cycle_tape(i)
                if t:
                    case = dict(case, rep=t)
            yield case
    return wrapped
