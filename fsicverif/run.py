"""CLI:  python -m fsicverif.run <ID> [--tier quick|thorough] [--replay FILE] [--seed N]"""
import argparse
import importlib
import json
import os
import sys
import time


def main(argv=None):
    ap = argparse.ArgumentParser()
    ap.add_argument('property')
    ap.add_argument('--tier', default=os.environ.get('VERIF_TIER') or 'quick',
                    choices=['quick', 'thorough'])
    ap.add_argument('--seed', type=int, default=None)
    ap.add_argument('--replay', default=None)
    ap.add_argument('--no-evidence', action='store_true')
    args = ap.parse_args(argv)

    seed = args.seed
    if seed is None:
        try:
            seed = int(os.environ.get('VERIF_SEED', '1') or 1)
        except ValueError:
            seed = 1

    from . import core, env  # noqa: F401  (env import checks the tree under test)

    pid = args.property.upper()
    try:
        mod = importlib.import_module(f'fsicverif.props.{pid.lower()}')
    except ModuleNotFoundError as e:
        sys.stderr.write(f'HARNESS-ERROR: no check for property {pid}: {e}\n')
        return 2

    try:
        if args.replay:
            res = core.replay_file(mod, args.tier, args.replay)
            if res.violations:
                for key, detail in res.violations:
                    print(f'  key={key}\n  detail={detail}')
                print(f'VIOLATION property={pid} replay={os.path.abspath(args.replay)}')
                return 1
            print(f'replay of {args.replay}: property {pid} holds on this case')
            return 0

        if hasattr(mod, 'selfcheck'):
            mod.selfcheck()
        code, evidence, lines = core.run_property(mod, args.tier, seed)
    except core.HarnessError as e:
        sys.stderr.write(f'HARNESS-ERROR: {e}\n')
        return 2

    for line in lines:
        print(line)
    cov = evidence['coverage']
    print(f"{pid} tier={args.tier} seed={seed}: evaluations={cov['evaluations']} "
          f"distinct_nontrivial={cov['distinct_nontrivial']} violations={evidence['violations']} "
          f"known={sum(cov['excluded_known'].values())} wall={evidence['wall_s']}s"
          + (' BUDGET-EXHAUSTED' if cov['budget_exhausted'] else ''))
    if not args.no_evidence:
        ev_dir = os.path.join(env.VERIF, 'evidence')
        os.makedirs(ev_dir, exist_ok=True)
        tmp = os.path.join(ev_dir, f'.{pid}.json.tmp')
        with open(tmp, 'w') as fh:
            json.dump(evidence, fh, indent=1, default=repr)
            fh.write('\n')
        os.replace(tmp, os.path.join(ev_dir, f'{pid}.json'))
    return code


if __name__ == '__main__':
    t0 = time.time()
    sys.exit(main())
