"""C18 - an alias is indistinguishable from the variable it names."""
import itertools
import signal
import sys

import numpy as np

from .. import env  # noqa: F401
from ..core import Phase, Result
from .. import containerops as CO
from ..represent import Rep, tapes, cycle_tape
from ..util import attempt, same_array

import fsic
from fsic.extensions import AliasMixin

ID = 'C18'
TITLE = 'An alias is indistinguishable from the variable it names'
LEVEL = 'exploration'
DESIGN_REF = 'DESIGN.md section 5, C18'
RULE = (
    'alias maps over a four-variable model (two endogenous, one exogenous, one parameter): every map with up to 3 entries '
    'over the alias pool (many-to-one, chains, aliases of aliases, self-maps on variable names, all insertion orders) is '
    'enumerated, larger maps (up to 6 entries, chains of up to five names) and PREFERRED_NAMES subsets are drawn by '
    'Hypothesis together with histories (constructor keywords, whole-series / item / label / label-slice assignment, '
    'replace_values, in-place writes through the returned array, solve) in which every name is replaced by a generated '
    'alias of it; a twin model without aliases receives the same history through canonical names. Oracle after every '
    'step: values, statuses and iterations equal the twin\'s; model[alias] is model[canonical]; the set of array-valued '
    '__dict__ entries equals the twin\'s (no extra storage). to_dataframe(use_aliases=True) is a one-to-one renaming of '
    'the plain export (each new name the canonical name or one of its aliases, the declared preferred name where one '
    'exists), data identical column by column; ambiguous preferences raise ValueError - at construction, and at export '
    'when the instance-level preferred_names list was reassigned or edited in place afterwards. Construction runs under a '
    'watchdog and a 2*10^5 line-event budget. Non-trivial: the map has a chain or a many-to-one group and the history '
    'writes through an alias. Distinct = distinct case JSON.'
)
ASSUMPTIONS = ['alias names never coincide with the name of a different variable; maps are acyclic (every alias resolves to a variable)',
               '"terminates" for construction is decided up to 2*10^5 traced line events (normal: < 500)']
TECHNIQUE = 'differential model-based testing: aliased model vs canonical twin over generated alias maps and operation histories; exhaustive small maps'
LEVEL_TEXT = ('Alias maps are enumerated exhaustively up to 3 entries and sampled beyond; each generated history is applied through '
              'aliases and through canonical names on a twin, and the two are compared after every step.')
LEVEL_NOTE = 'Trusted: my alias resolution (follow the chain). Not covered: aliases that shadow other variables, cyclic maps.'

VARS = ['A', 'B', 'C', 'D']
ABSENT = [9999, 'no-such-period', -77]      # labels that are in none of the spans used here
POOL = ['a1', '_a2', 'a3', 'a4', 'a5', 'GDP', '_g']


# the variables are written 'A', 'B', 'C', 'D' in the case descriptions; a case may spell them otherwise (names longer than
# one character, names that are prefixes / substrings of one another)
LETTERS = ['A', 'B', 'C', 'D']      # how the generators write the variables
NAMINGS = {None: ['A', 'B', 'C', 'D'], 'long': ['YD', 'Y', 'income_1', 'alpha_1'], 'nested': ['Y', 'YD', 'C_1', 'C']}
_PLAIN = {}


def plain_class(names):
    a, b, c, d = names

    class Plain(fsic.BaseModel):
        ENDOGENOUS = [a, b]
        EXOGENOUS = [c]
        PARAMETERS = [d]
        ERRORS = []
        NAMES = ENDOGENOUS + EXOGENOUS + PARAMETERS
        CHECK = ENDOGENOUS
        LAGS = 1
        LEADS = 0

        def _evaluate(self, t, **kwargs):
            v = self.__dict__
            v['_' + a][t] = v['_' + a][t - 1] * 0.5 + v['_' + c][t]
            v['_' + b][t] = v['_' + a][t] + v['_' + d][t]
    return Plain


def use_names(key):
    """Select the spelling of the four variables for the current case (module state: one case at a time per process)."""
    global VARS, Plain
    VARS = list(NAMINGS[key])
    if key not in _PLAIN:
        _PLAIN[key] = plain_class(VARS)
    Plain = _PLAIN[key]
    return dict(zip('ABCD', VARS))


use_names(None)


def resolve(amap, name):
    seen = set()
    while name in amap and amap[name] != name and name not in seen:
        seen.add(name)
        name = amap[name]
    return name


def aliases_of(amap, var):
    return [k for k in amap if k != var and resolve(amap, k) == var]


class _Timeout(BaseException):
    pass


def _alarm(signum, frame):
    raise _Timeout()


def construct(cls, *args, **kwargs):
    """Instantiate under a watchdog; -> ('ok', obj) | ('raised', exc) | ('nonterminating', None) | ('slow', None)."""
    signal.signal(signal.SIGALRM, _alarm)
    signal.setitimer(signal.ITIMER_REAL, 1.0)
    try:
        try:
            return ('ok', cls(*args, **kwargs))
        finally:
            signal.setitimer(signal.ITIMER_REAL, 0)
    except _Timeout:
        pass
    except Exception as e:  # noqa: BLE001
        return ('raised', e)
    # confirm under a deterministic line budget
    count = [0]

    class Stop(BaseException):
        pass

    def tracer(frame, event, arg):
        count[0] += 1
        if count[0] > 200_000:
            raise Stop()
        return tracer
    sys.settrace(tracer)
    try:
        try:
            cls(*args, **kwargs)
        except Stop:
            return ('nonterminating', None)
        except Exception as e:  # noqa: BLE001
            return ('raised', e)
    finally:
        sys.settrace(None)
    return ('slow', None)


def make_class(amap_items, preferred):
    class Aliased(AliasMixin, Plain):
        ALIASES = dict(amap_items)
        PREFERRED_NAMES = list(preferred)
    return Aliased


def via_name(amap, var, via):
    names = [var] + aliases_of(amap, var)
    return names[via % len(names)]


def apply(m, op, amap, labels, aliased, rep=None):
    n = len(labels)

    def nm(vi, via):
        var = VARS[vi % len(VARS)]
        if not aliased:
            return var
        name = via_name(amap, var, via)
        return rep.str(name) if rep is not None else name      # np.str_ / a str subclass name the same alias
    k = op[0]
    if k == 'setattr':
        return attempt(setattr, m, nm(op[1], op[2]), CO.dec_operand(op[3]))
    if k == 'setitem':
        return attempt(m.__setitem__, nm(op[1], op[2]), CO.dec_operand(op[3]))
    if k == 'setlabel':
        return attempt(m.__setitem__, (nm(op[1], op[2]), labels[op[3] % n]), op[4])
    if k == 'setslice':
        a = None if op[3] is None else labels[op[3] % n]
        b = None if op[4] is None else labels[op[4] % n]
        return attempt(m.__setitem__, (nm(op[1], op[2]), slice(a, b, op[5])), op[6])
    if k == 'replace_values':
        return attempt(lambda: m.replace_values(**{nm(vi, via): CO.dec_operand(o) for vi, via, o in op[1]}))
    if k == 'inplace-attr':
        return attempt(lambda: getattr(m, nm(op[1], op[2])).__setitem__(op[3] % n, op[4]))
    if k == 'inplace-item':
        return attempt(lambda: m[nm(op[1], op[2])].__setitem__(op[3] % n, op[4]))
    if k == 'read-label':
        return attempt(lambda: float(m[nm(op[1], op[2]), labels[op[3] % n]]))
    if k == 'read-absent':
        return attempt(lambda: m[nm(op[1], op[2]), ABSENT[op[3] % len(ABSENT)]])
    if k == 'set-absent':
        return attempt(m.__setitem__, (nm(op[1], op[2]), ABSENT[op[3] % len(ABSENT)]), op[4])
    if k == 'slice-absent':
        return attempt(lambda: m[nm(op[1], op[2]), labels[0]:ABSENT[op[3] % len(ABSENT)]])
    if k == 'solve':
        return attempt(lambda: m.solve(max_iter=op[1], failures='ignore', errors='ignore'))
    raise ValueError(op)


def check_case(case):
    tr = use_names(case.get('names'))
    if case.get('names'):
        case = dict(case, aliases=[[tr.get(k, k), tr.get(v, v)] for k, v in case['aliases']],
                    preferred=[tr.get(x, x) for x in case.get('preferred') or []])
        if case.get('preferred_after'):
            case['preferred_after'] = [case['preferred_after'][0], [tr.get(x, x) for x in case['preferred_after'][1]]]
    amap_items = [tuple(x) for x in case['aliases']]
    amap = dict(amap_items)
    preferred = list(case.get('preferred') or [])
    if case.get('labels') == 'alias-names':
        # period labels that happen to be spelt like the model's alias / variable names
        labels = (POOL[:3] + [VARS[0], 'p4', VARS[1]])[:case.get('n', 4)]
    else:
        labels = list(range(2000, 2000 + case.get('n', 4)))
    n = len(labels)
    res = Result(classes=['entries=%d' % len(amap_items)])
    chain = any(v in amap and v != k for k, v in amap_items)
    groups = {}
    for k in amap:
        groups.setdefault(resolve(amap, k), []).append(k)
    many = any(len(v) > 1 for v in groups.values())
    selfmap = any(k == v for k, v in amap_items)
    if chain:
        res.tag('chain')
    if many:
        res.tag('many-to-one')
    if selfmap:
        res.tag('self-map')
    Aliased = make_class(amap_items, preferred)
    init = case.get('init') or []
    kw_alias = {via_name(amap, VARS[vi % 4], via): np.array(vals, dtype=float)[:n] for vi, via, vals in init if len(vals) >= n}
    kw_plain = {VARS[vi % 4]: np.array(vals, dtype=float)[:n] for vi, via, vals in init if len(vals) >= n}
    detail = f'ALIASES={amap_items} PREFERRED_NAMES={preferred} init={list(kw_alias)}'
    # ambiguous preferences
    targets = [resolve(amap, p) for p in preferred]
    ambiguous = len(set(targets)) != len(targets)
    status, value = construct(Aliased, labels, **kw_alias)
    if status == 'nonterminating':
        res.fail('construction/nonterminating' + ('/self-map' if selfmap else ''), f'{detail}: constructor still running after 2*10^5 line events')
        return res
    if status == 'slow':
        res.tag('slow-construction')
        return res
    if status == 'raised':
        if ambiguous and isinstance(value, ValueError):
            res.tag('ambiguous-preferences-rejected')
            return res
        res.fail(f'construction/raised-{type(value).__name__}', f'{detail}: {value!r}')
        return res
    m = value
    twin = Plain(labels, **kw_plain)
    ops = case.get('ops') or []
    rep = Rep(case.get('rep'))
    wrote_via_alias = False
    for i, op in enumerate(ops):
        r1 = apply(m, op, amap, labels, True, rep)
        r2 = apply(twin, op, amap, labels, False)
        if op[0] not in ('solve', 'replace_values') and len(op) > 2 and op[0] != 'read-label':
            var = VARS[op[1] % 4]
            if via_name(amap, var, op[2]) != var:
                wrote_via_alias = True
        d2 = f'{detail}: step {i} {op} (history {ops[:i]})'
        if r1.ok != r2.ok or (not r1.ok and type(r1.exc) is not type(r2.exc)):
            res.fail(f'history/outcome-differs/op={op[0]}', f'{d2}: through aliases {r1!r}, canonical twin {r2!r}')
            break
        if op[0].endswith('-absent') and not r1.ok and isinstance(r1.exc, KeyError) and r1.exc.args != r2.exc.args:
            # "exactly the effect of the same operation on the underlying variable": the same period is reported missing
            res.fail(f'history/error-differs/op={op[0]}', f'{d2}: through aliases {r1!r}, canonical twin {r2!r}')
            break
        if r1.ok and op[0] in ('read-label', 'solve') and repr(r1.value) != repr(r2.value):
            res.fail(f'history/result-differs/op={op[0]}', f'{d2}: through aliases {r1!r}, canonical twin {r2!r}')
            break
        bad = None
        for v in VARS + ['status', 'iterations']:
            if not same_array(np.asarray(m[v]), np.asarray(twin[v])) or np.asarray(m[v]).dtype != np.asarray(twin[v]).dtype:
                bad = v
                break
        if bad:
            res.fail(f'history/state-differs/op={op[0]}', f'{d2}: {bad} = {np.asarray(m[bad]).tolist()}, twin {np.asarray(twin[bad]).tolist()}')
            break
    res.nontrivial = (chain or many) and wrote_via_alias
    # identity and storage
    for k in amap:
        var = resolve(amap, k)
        if k == var:
            continue
        a1 = attempt(lambda: m[k])
        a2 = attempt(lambda: getattr(m, k))
        if not a1.ok or not a2.ok or a1.value is not m[var] or a2.value is not m[var]:
            res.fail('identity/alias-is-not-the-variable' + ('/chain' if amap[k] in amap and amap[k] != k else ''),
                     f'{detail}: model[{k!r}] -> {a1!r}; it should be the array of {var!r}')
            break
    arrays_m = sorted(k for k, v in m.__dict__.items() if isinstance(v, np.ndarray))
    arrays_t = sorted(k for k, v in twin.__dict__.items() if isinstance(v, np.ndarray))
    if arrays_m != arrays_t:
        res.fail('storage/extra-arrays', f'{detail}: array entries {arrays_m}, twin {arrays_t}')
    # export (optionally after the documented instance-level copy `preferred_names` was changed)
    pa = case.get('preferred_after')
    if pa is not None:
        how, names_after = pa
        if how == 'assign':
            m.preferred_names = list(names_after)
        else:
            m.preferred_names[:] = list(names_after)
        preferred = list(names_after)
        targets = [resolve(amap, x) for x in preferred]
        ambiguous = len(set(targets)) != len(targets)
        detail += f' preferred_names set to {preferred} ({how})'
        res.tag('preferred-names-changed-on-instance' + ('/ambiguous' if ambiguous else ''))
    plain = attempt(m.to_dataframe)
    renamed = attempt(lambda: m.to_dataframe(use_aliases=True))
    if not plain.ok:
        res.fail(f'export/plain-raised-{plain.exc_name}', f'{detail}: {plain!r}')
        return res
    if ambiguous and pa is None:
        if renamed.ok or not isinstance(renamed.exc, ValueError):
            res.fail('export/ambiguous-preferences-accepted', f'{detail}: {renamed!r}')
        return res
    if ambiguous:
        # the statement promises rejection for PREFERRED_NAMES (checked at construction); for a list edited on the instance
        # afterwards only: the export raises ValueError or is still a pure renaming (checked below, without the
        # preferred-name clause)
        if not renamed.ok:
            if not isinstance(renamed.exc, ValueError):
                res.fail(f'export/raised-{renamed.exc_name}/ambiguous-instance-list', f'{detail}: {renamed!r}')
            return res
        preferred = []
    if not renamed.ok:
        res.fail(f'export/raised-{renamed.exc_name}', f'{detail}: {renamed!r}')
        return res
    p, r = plain.value, renamed.value
    if p.shape != r.shape:
        res.fail('export/shape', f'{detail}: plain {p.shape}, with aliases {r.shape}')
        return res
    if len(set(r.columns)) != len(r.columns):
        res.fail('export/duplicate-columns', f'{detail}: columns {list(r.columns)}')
        return res
    for c_old, c_new in zip(p.columns, r.columns):
        allowed = [c_old] + aliases_of(amap, c_old)
        pref = [x for x in preferred if resolve(amap, x) == c_old]
        if c_new not in allowed:
            res.fail('export/column-not-a-name-of-the-variable', f'{detail}: column {c_old!r} exported as {c_new!r}; its names are {allowed}')
        elif pref and c_new != pref[0]:
            res.fail('export/preferred-name-ignored' + ('/chain' if amap.get(pref[0]) in amap else ''),
                     f'{detail}: column {c_old!r} exported as {c_new!r}, preferred name is {pref[0]!r}')
        if not same_array(np.asarray(p[c_old]), np.asarray(r[c_new])):
            res.fail('export/data-changed', f'{detail}: column {c_old!r}/{c_new!r} data differ')
    return res


def acyclic_maps(max_entries):
    """All alias maps with up to max_entries entries: keys from the pool (in every insertion order), self-maps on variables;
    a target is a variable or a pool alias; maps with an unresolved chain (cycle / dangling) are skipped."""
    keys_pool = POOL[:3] + ['A']
    for r in range(0, max_entries + 1):
        for keys in itertools.permutations(keys_pool, r):
            target_sets = []
            for k in keys:
                if k in LETTERS:
                    target_sets.append([k])                       # self-map on a variable name
                else:
                    target_sets.append(['A', 'C'] + [x for x in keys if x != k and x not in LETTERS])
            for targets in itertools.product(*target_sets):
                amap = dict(zip(keys, targets))
                if all(resolve(amap, k) in LETTERS for k in amap):
                    yield [list(x) for x in zip(keys, targets)]


BASIC_OPS = [['setattr', 0, 1, {'scalar': 7}], ['setitem', 2, 2, {'list': [1, 2, 3, 4]}], ['setlabel', 0, 1, 1, 5.5],
             ['setslice', 2, 1, 1, None, None, 2.5], ['inplace-attr', 0, 2, 0, 9.0], ['replace_values', [[0, 1, {'scalar': 3}], [2, 1, {'scalar': 1}]]],
             ['read-label', 0, 1, 1], ['read-absent', 0, 1, 0], ['set-absent', 2, 2, 1, 3.5], ['slice-absent', 0, 2, 2], ['solve', 5]]


def gen_maps(max_entries):
    def gen():
        for i, amap in enumerate(acyclic_maps(max_entries)):
            keys = [k for k, _ in amap]
            prefs = [[]]
            if keys:
                prefs.append([keys[i % len(keys)]])
                prefs.append([keys[-1], 'B'])
                if len(keys) > 1:
                    prefs.append(keys[:2])
            case = {'aliases': amap, 'preferred': prefs[i % len(prefs)], 'n': 4, 'labels': 'alias-names' if i % 3 == 1 else 'int',
                    'init': [[0, 1, [1.0, 2.0, 3.0, 4.0]]] if i % 2 else [], 'ops': BASIC_OPS[i % 3:] + BASIC_OPS[:i % 3]}
            case['names'] = [None, 'long', None, 'nested'][i % 4]
            yield case
            if len(case['preferred']) == 2:
                yield dict(case, names='nested', ops=[])
                yield dict(case, names='nested', ops=[], preferred=case['preferred'][::-1])
            if keys and i % 5 == 0:
                yield dict(case, rep=[1 + (i // 5) % 2])
            if len(keys) >= 2 and i % 4 == 0:
                # the instance-level list is edited after construction: all names of the map at once (ambiguous when two
                # of them share a variable), then a single one
                yield dict(case, ops=[], preferred_after=['in-place' if i % 8 else 'assign', keys])
                yield dict(case, ops=[], preferred_after=['assign', [keys[-1]]])
    return gen


def strategy():
    from hypothesis import strategies as st

    @st.composite
    def cases(draw):
        nkeys = draw(st.integers(0, 6))
        keys = draw(st.permutations(POOL))[:nkeys]
        amap = []
        for i, k in enumerate(keys):
            # target: a variable, or another alias of the map that is resolved independently of k (acyclic by index)
            cands = LETTERS[:3] + list(keys[:i])
            amap.append([k, draw(st.sampled_from(cands))])
        # long chain on purpose
        if draw(st.booleans()) and nkeys >= 4:
            amap = [[keys[0], 'A']] + [[keys[j], keys[j - 1]] for j in range(1, nkeys)]
        for v in draw(st.lists(st.sampled_from(LETTERS), max_size=2, unique=True)):
            amap.append([v, v])
        amap = draw(st.permutations(amap))
        names = [k for k, _ in amap] + LETTERS
        preferred = draw(st.lists(st.sampled_from(names), max_size=3, unique=True))
        n = 4
        scal = st.sampled_from([0.0, 1.5, -2.0, 7])
        vi, via, pos = st.integers(0, 3), st.integers(0, 5), st.integers(0, n - 1)
        operand = st.one_of(scal.map(lambda v: {'scalar': v}), st.lists(scal, min_size=n, max_size=n).map(lambda v: {'list': v}),
                            st.lists(scal, min_size=n - 1, max_size=n - 1).map(lambda v: {'list': v}))
        op = st.one_of(
            st.tuples(st.just('setattr'), vi, via, operand).map(list),
            st.tuples(st.just('setitem'), vi, via, operand).map(list),
            st.tuples(st.just('setlabel'), vi, via, pos, scal).map(list),
            st.tuples(st.just('setslice'), vi, via, st.one_of(st.none(), pos), st.one_of(st.none(), pos), st.sampled_from([None, 2]), scal).map(list),
            st.tuples(st.just('replace_values'), st.lists(st.tuples(vi, via, operand).map(list), min_size=1, max_size=3,
                                                         unique_by=lambda x: x[0] % 4)).map(list),
            st.tuples(st.just('inplace-attr'), vi, via, pos, scal).map(list),
            st.tuples(st.just('inplace-item'), vi, via, pos, scal).map(list),
            st.tuples(st.just('read-label'), vi, via, pos).map(list),
            st.tuples(st.just('read-absent'), vi, via, st.integers(0, 2)).map(list),
            st.tuples(st.just('set-absent'), vi, via, st.integers(0, 2), scal).map(list),
            st.tuples(st.just('slice-absent'), vi, via, st.integers(0, 2)).map(list),
            st.tuples(st.just('solve'), st.sampled_from([1, 5, 40])).map(list),
        )
        init = draw(st.lists(st.tuples(vi, via, st.lists(scal, min_size=n, max_size=n)).map(list), max_size=2, unique_by=lambda x: x[0] % 4))
        case = {'aliases': [list(x) for x in amap], 'preferred': preferred, 'n': n, 'init': init,
                'labels': draw(st.sampled_from(['int', 'int', 'alias-names'])), 'ops': draw(st.lists(op, max_size=10))}
        case['rep'] = draw(tapes())
        case['names'] = draw(st.sampled_from([None, None, 'long', 'nested']))
        if draw(st.integers(0, 2)) == 0:
            case['preferred_after'] = [draw(st.sampled_from(['assign', 'in-place'])),
                                       draw(st.lists(st.sampled_from(names), max_size=4, unique=True))]
        return case
    return cases()


def phases(tier):
    quick = tier == 'quick'
    return [
        Phase('small-maps', check_case, gen=gen_maps(3 if quick else 4), exhaustive=True),
        Phase('histories', check_case, strategy=strategy, examples=6000 if quick else 150000),
    ]
