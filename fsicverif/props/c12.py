"""C12 - reindex preserves overlapping periods and fills the rest, on a fresh object."""
import numpy as np

from .. import env  # noqa: F401
from ..core import Phase, Result
from .. import snapshot, spans
from ..represent import Rep, tapes
from ..util import attempt, same_value

import fsic
from fsic.core import VectorContainer
from fsic.extensions import PandasIndexFeaturesMixin

ID = 'C12'
TITLE = 'reindex preserves overlapping periods and fills the rest, on a fresh object'
LEVEL = 'exploration'
DESIGN_REF = 'DESIGN.md section 5, C12'
RULE = (
    '(old span, new span) pairs over the span catalogue up to length 5: the new span is a shift, extension at either end, '
    'shrink, permutation, disjoint set or a list with repeated labels, of the same flavour as the old one (range, list, '
    'NumPy array, pandas Index, PeriodIndex, DatetimeIndex); variables of dtype float / int / bool / str / <U2 plus status and '
    'iterations of unsolved, partly solved and solved models; fill_value in {absent, 7, 2.5, True, "zz"}, per-variable fills '
    'for generated subsets (incl. falsy fills 0 / "" / False and status/iterations overrides), unknown names, strict in '
    '{None, True, False} x object strictness; containers, models and the pandas mixin with default arguments. Oracle: for '
    'every variable and new position i the value is old[pos_old(new[i])] if the label is in the old span, else the fill by '
    'the stated precedence cast to the dtype; same class, dtypes, variable order, lags/leads, attributes; original snapshot '
    'unchanged; no shared mutable object (ids walked, then confirmed by mutation); KeyError for unknown fills only under '
    'strict. Non-trivial: partial overlap that is not a pure shift, or a repeated label, or a non-float dtype gets a new '
    'period. Old spans with a repeated label (phase repeated-old-labels): the call refuses or each overlapping period holds '
    'the value of one of the equally labelled old positions. Distinct = distinct case JSON.'
)
ASSUMPTIONS = ['a fill value that cannot be converted to a series dtype (e.g. "zz" for an int series) may raise: nothing is asserted then',
               'fixed-width strings hold the fill cast to the creation dtype']
TECHNIQUE = 'Hypothesis-generated (old span, new span, fills) cases + a fixed enumeration against a position-by-position reference; shared-object detection by id walk confirmed by mutation'
LEVEL_TEXT = ('Each generated reindex call is compared cell by cell with the statement (independent pos(), stated fill precedence), '
              'and the result is checked to be a fresh object sharing nothing with the original.')
LEVEL_NOTE = 'Trusted: spans.pos(). Not covered: spans longer than 5; pandas fill methods of the mixin (only its defaults are in the statement; fill_value, per-variable fills and strict do go through the mixin).'

DEFAULTS = {'f': float('nan'), 'i': 0, 'u': 0, 'b': False, 'U': ''}


def make(case):
    span = spans.build(case['old'])
    n = len(span)
    kind = case['kind']
    if kind == 'container':
        obj = VectorContainer(span, strict=Rep(case.get('rep')).bool(bool(case.get('obj_strict', False))))
        obj.add_variable('X', np.arange(1.0, n + 1))
        obj.add_variable('N', list(range(10, 10 + n)), dtype=int)
        obj.add_variable('B', [i % 2 == 0 for i in range(n)] if n else True, dtype=bool)
        obj.add_variable('S', ['s%d' % i for i in range(n)] if n else 'ab', dtype='<U2')
        obj.add_variable('T', 'longer text')
        obj.add_variable('U8', list(range(n)), dtype=np.uint8)
        obj.add_attribute('note', ['a', 'list'])
        return obj
    bases = (PandasIndexFeaturesMixin, fsic.BaseModel) if kind == 'pandas-mixin' else (fsic.BaseModel,)

    class M(*bases):
        ENDOGENOUS = ['X']
        EXOGENOUS = ['Y']
        PARAMETERS = []
        ERRORS = []
        NAMES = ENDOGENOUS + EXOGENOUS
        CHECK = ENDOGENOUS
        LAGS = 1
        LEADS = 0

        def _evaluate(self, t, **kwargs):
            self._X[t] = self._X[t - 1] * 0.5 + self._Y[t]
    obj = M(span, strict=Rep(case.get('rep')).bool(bool(case.get('obj_strict', False))), X=np.arange(1.0, n + 1), Y=np.arange(n) * 0.25)
    obj.add_variable('N', list(range(10, 10 + n)), dtype=int)
    obj.add_variable('B', True, dtype=bool)
    obj.add_variable('S', 'ab', dtype='<U2')
    obj.add_variable('U16', list(range(n)), dtype=np.uint16)
    solved = case.get('solved', 0)
    if solved and n >= 2:
        end = span[n - 1] if solved == 2 else span[max(1, n // 2)]
        attempt(obj.solve, end=end, max_iter=50, failures='ignore', errors='ignore')
    obj.lags = case.get('lags', 1)
    return obj


def cast_fill(value, dtype):
    k = dtype.kind
    if k == 'f':
        return float(value)
    if k in 'iu':
        return np.full(1, int(value), dtype=dtype)[0].item()    # OverflowError if the dtype cannot hold it
    if k == 'b':
        return bool(value)
    if k == 'U':
        return np.array([str(value)]).astype(dtype)[0]
    return value


def mutable_ids(obj):
    out = {}
    for k, v in obj.__dict__.items():
        if isinstance(v, (list, dict, set)):
            out[id(v)] = k
    return out


def check_case(case):
    obj = make(case)
    old_labels = spans.labels(case['old'])
    new_span = spans.build(case['new'])
    new_labels = spans.labels(case['new'])
    kind = case['kind']
    res = Result(classes=['object:' + kind, 'old:' + case['old']['k'], 'new:' + case['new']['k']])
    kw = {}
    if 'fill_value' in case:
        kw['fill_value'] = case['fill_value']
    if case.get('strict_arg') is not None:
        kw['strict'] = Rep((case.get('rep') or [])[1:]).bool(case['strict_arg'])     # np.bool_ / 0-1 flags are the same flags
    fills = dict(case.get('fills') or {})
    kw.update(fills)
    before = snapshot.snapshot(obj)
    series = {nm: np.array(obj[nm]) for nm in obj.index}
    out = attempt(obj.reindex, new_span, **kw)
    detail = f'{kind} old={old_labels!r} new={new_labels!r} kwargs={kw}'
    strict = case.get('strict_arg') if case.get('strict_arg') is not None else bool(case.get('obj_strict', False))
    unknown = [k for k in fills if k not in obj.index]

    d = snapshot.first_diff_key(before, snapshot.snapshot(obj))
    if d:
        res.fail(f'original-changed/{d.split("/")[0]}', f'{detail}: the original changed at {d}')
    if unknown and strict:
        res.tag('unknown-fill-under-strict')
        res.nontrivial = True
        if out.ok or not isinstance(out.exc, KeyError):
            res.fail('unknown-fill/not-rejected-under-strict', f'{detail}: {out!r}')
        return res

    # expected cells
    expected = {}
    castable = True
    positions = [spans.pos(old_labels, lab) for lab in new_labels]
    for nm, arr in series.items():
        if nm in fills:
            fill = fills[nm]
        elif nm == 'status' and kind != 'container':
            fill = '-'
        elif nm == 'iterations' and kind != 'container':
            fill = -1
        elif case.get('fill_value') is not None:
            fill = case['fill_value']
        else:
            fill = DEFAULTS[arr.dtype.kind]
        try:
            f = cast_fill(fill, arr.dtype)
        except (ValueError, TypeError, OverflowError):
            castable = False
            break
        expected[nm] = [arr[p] if p is not None else f for p in positions]
    if not castable:
        # a fill value that the variable's dtype cannot hold: the new periods cannot "hold the fill value", so the call
        # has to refuse (as NumPy does) whenever there is a new period to fill - never succeed with some other value
        res.tag('fill-not-convertible')
        if any(p is None for p in positions):
            res.nontrivial = True
            if out.ok:
                res.fail(f'unconvertible-fill-accepted/{kind}', f'{detail}: returned an object although a fill value cannot be '
                         f'converted to its variable\'s dtype')
            elif not isinstance(out.exc, (ValueError, TypeError, OverflowError)):
                res.fail(f'unconvertible-fill/raised-{out.exc_name}/{kind}', f'{detail}: {out!r}')
        return res
    if not out.ok:
        res.fail(f'raised-{out.exc_name}/{kind}/{case["old"]["k"]}', f'{detail}: {out!r}')
        return res
    new = out.value
    overlap = [p for p in positions if p is not None]
    pure_shift = bool(overlap) and overlap == list(range(overlap[0], overlap[0] + len(overlap)))
    repeated = len(set(map(repr, new_labels))) != len(new_labels)
    gets_new = any(p is None for p in positions)
    res.nontrivial = (bool(overlap) and gets_new and not pure_shift) or repeated or gets_new
    if unknown:
        res.tag('unknown-fill-ignored')
    if type(new) is not type(obj):
        res.fail('result/class', f'{detail}: result is {type(new)}, original {type(obj)}')
    if new is obj:
        res.fail('result/same-object', f'{detail}: reindex returned the original object')
        return res
    got_labels = list(new.span)
    if len(got_labels) != len(new_labels) or any(spans.pos([a], b) != 0 for a, b in zip(got_labels, new_labels)):
        res.fail('result/span', f'{detail}: result span {got_labels!r}')
        return res
    if spans.is_pandas(case['new']) or case['new']['k'] == 'np':
        # "whose span is new_span": the index / array that was passed, not a list of its elements (partial-string lookups,
        # slicing and .get_loc only exist on the index)
        if not isinstance(new.span, type(new_span)):
            res.fail('result/span-type/' + case['new']['k'], f'{detail}: result span is a {type(new.span).__name__}, '
                     f'a {type(new_span).__name__} was passed')
            return res
    if list(new.index) != list(obj.index):
        res.fail('result/variable-order', f'{detail}: index {list(new.index)} vs {list(obj.index)}')
        return res
    for nm, want in expected.items():
        got = new[nm]
        if not isinstance(got, np.ndarray) or got.dtype != series[nm].dtype:
            res.fail(f'result/dtype/{series[nm].dtype.kind}/{kind}', f'{detail}: {nm} has dtype {getattr(got, "dtype", None)}, original {series[nm].dtype}')
            continue
        if got.shape != (len(new_labels),):
            res.fail(f'result/shape/{kind}', f'{detail}: {nm} has shape {got.shape}')
            continue
        for i, (g, w) in enumerate(zip(got.tolist(), list(want))):
            w = w.item() if isinstance(w, np.generic) else w
            if not same_value(g, w):
                where = 'overlap' if positions[i] is not None else 'fill'
                src = ('per-variable' if nm in fills else 'model-default' if nm in ('status', 'iterations') and kind != 'container'
                       else 'fill_value' if case.get('fill_value') is not None else 'dtype-default')
                res.fail(f'cell/{where}/{src if where == "fill" else "-"}/{series[nm].dtype.kind}/{kind}',
                         f'{detail}: {nm}[{i}] (label {new_labels[i]!r}) = {g!r}, expected {w!r}')
                break
    for a in ('lags', 'leads', 'dtype', 'engine', 'check', 'endogenous', 'note', 'names', '_attributes', '_strict'):
        if a in obj.__dict__ and (a not in new.__dict__ or snapshot._plain(obj.__dict__[a]) != snapshot._plain(new.__dict__[a])):
            res.fail(f'result/attribute/{a}', f'{detail}: attribute {a} = {new.__dict__.get(a)!r}, original {obj.__dict__[a]!r}')
    if list(new.__dict__) != list(obj.__dict__):
        res.fail('result/dict-keys', f'{detail}: result has entries {list(new.__dict__)}, original {list(obj.__dict__)}')
    # shares nothing
    for nm in obj.index:
        if np.shares_memory(obj[nm], new[nm]):
            res.fail('shared/series-memory', f'{detail}: {nm} shares memory with the original')
    mine = mutable_ids(obj)
    for k, v in new.__dict__.items():
        if isinstance(v, (list, dict, set)) and id(v) in mine:
            # confirm by mutation
            marker = '__fsicverif__'
            size_before = len(obj.__dict__[mine[id(v)]])
            if isinstance(v, list):
                v.append(marker)
            elif isinstance(v, dict):
                v[marker] = 1
            else:
                v.add(marker)
            if len(obj.__dict__[mine[id(v)]]) != size_before:
                res.fail(f'shared/mutable-attribute/{k}', f'{detail}: mutating result.{k} changed the original')
            if isinstance(v, list):
                v.remove(marker)
            elif isinstance(v, dict):
                del v[marker]
            else:
                v.discard(marker)
    return res


def new_spans(desc):
    """A family of new spans of the same flavour as `desc`."""
    k = desc['k']
    labs = spans.labels(desc)
    n = len(labs)
    out = []
    if k == 'range':
        st, step = desc['start'], desc.get('step', 1)
        for shift, m in ((0, n), (1, n), (-2, n + 3), (2, max(n - 2, 0)), (n + 5, 2), (-1, n + 2), (0, 0)):
            out.append({'k': 'range', 'start': st + shift * step, 'n': m, 'step': step})
        if abs(step) > 1:
            # same step, out of phase: no label in common although the ranges interleave
            out.append({'k': 'range', 'start': st + 1, 'n': n, 'step': step})
            out.append({'k': 'range', 'start': st - 2, 'n': n + 1, 'step': step})
        ints = [st + i * step for i in range(-1, n + 1)]
        out.append({'k': 'list', 'items': ints[::-1]})
        out.append({'k': 'list', 'items': ints[:2] + ints[:2] + ints[-1:]})
        out.append({'k': 'np', 'items': ints[1:]})
        return out
    if k in ('list', 'np', 'pdindex'):
        enc = [spans.enc_label(x) for x in labs]
        extra = [spans.enc_label(x) for x in spans.absent_labels(desc)]
        variants = [enc, enc[::-1], enc[1:] + extra[:1], extra[:1] + enc, enc[:1] + enc[:1] + extra[:1] + enc[-1:], extra, [], enc[::2]]
        for v in variants:
            if k != 'list' and any(isinstance(x, dict) for x in v):
                continue
            if k == 'np' and not v:
                continue
            out.append({'k': k, 'items': v})
        return out
    if k == 'period':
        import pandas as pd
        first = pd.Period(desc['start'], freq=desc['freq'])
        for shift, m in ((0, n), (1, n), (-2, n + 3), (2, max(n - 2, 0)), (n + 3, 2)):
            out.append({'k': 'period', 'freq': desc['freq'], 'start': str(first + shift), 'n': m})
        per = [spans.enc_label(x) for x in labs] + [spans.enc_label(first - 1)]
        out.append({'k': 'list', 'items': per[::-1]})
        out.append({'k': 'list', 'items': per[:1] + per[:1] + per[-1:]})
        return out
    if k == 'datetime':
        import pandas as pd
        idx = spans.build(desc)
        off = idx.freq if len(idx) else pd.tseries.frequencies.to_offset(desc['freq'])
        first = pd.Timestamp(desc['start'])
        for shift, m in ((0, n), (1, n), (-2, n + 3), (2, max(n - 2, 0))):
            out.append({'k': 'datetime', 'freq': desc['freq'], 'start': (first + shift * off).strftime('%Y-%m-%d'), 'n': m})
        ts = [spans.enc_label(x) for x in labs] + [spans.enc_label(first - off)]
        out.append({'k': 'list', 'items': ts[::-1]})
        return out
    raise ValueError(desc)


FILL_SETS = [
    {}, {'fill_value': 7}, {'fill_value': 2.5}, {'fill_value': True}, {'fill_value': 'zz'},
    {'fills': {'X': -1.5}}, {'fills': {'N': 0, 'X': 0.0}}, {'fills': {'S': '', 'B': False}}, {'fill_value': 7, 'fills': {'N': 3, 'S': 'q'}},
    {'fills': {'status': 'S', 'iterations': 5}}, {'fills': {'iterations': 0}}, {'fills': {'status': ''}},
    {'fills': {'Q': 1}}, {'fills': {'Q': 1, 'X': 2.0}, 'strict_arg': True}, {'fills': {'Q': 1}, 'strict_arg': False, 'obj_strict': True},
    {'fills': {'Q': 1}, 'obj_strict': True}, {'fill_value': 1, 'strict_arg': True}, {'fills': {'B': True, 'T': 'x'}},
]


def gen_pairs(max_len):
    def gen():
        i = 0
        for desc in spans.catalogue(max_len, min_len=0):
            for new in new_spans(desc):
                for kind in ('container', 'model', 'pandas-mixin'):
                    for fs in (FILL_SETS if i % 3 == 0 else FILL_SETS[i % len(FILL_SETS):][:3]):
                        if kind == 'pandas-mixin' and fs:
                            continue       # the statement covers the mixin with its default arguments only
                        if kind == 'container' and any(k in ('status', 'iterations') for k in (fs.get('fills') or {})):
                            continue
                        if kind != 'container' and 'T' in (fs.get('fills') or {}):
                            continue
                        i += 1
                        yield dict({'kind': kind, 'old': desc, 'new': new, 'solved': i % 3}, **fs)
    return gen


def strategy():
    from hypothesis import strategies as st
    descs = spans.catalogue(5, min_len=0) + spans.catalogue_long()

    @st.composite
    def cases(draw):
        desc = draw(st.sampled_from(descs))
        new = draw(st.sampled_from(new_spans(desc)))
        kind = draw(st.sampled_from(['container', 'model', 'model', 'pandas-mixin']))
        case = {'kind': kind, 'old': desc, 'new': new, 'solved': draw(st.integers(0, 2)), 'obj_strict': draw(st.booleans())}
        if kind == 'pandas-mixin' and draw(st.booleans()):
            return case            # plain default call; otherwise the base-class arguments go through the mixin as well
        fv = draw(st.sampled_from(['absent', 7, 2.5, True, 0, 'zz', -1]))
        if fv != 'absent':
            case['fill_value'] = fv
        names = ['X', 'N', 'B', 'S'] + (['T'] if kind == 'container' else ['Y', 'status', 'iterations']) + ['Q', 'x']
        fills = {}
        for nm in draw(st.lists(st.sampled_from(names), max_size=3, unique=True)):
            fills[nm] = draw(st.sampled_from({'X': [0.0, -2.5, 9], 'Y': [0.0, 1.5], 'N': [0, 3, -1, 'abc'], 'B': [False, True], 'S': ['', 'q', 'abc'],
                                               'T': ['', 'text'], 'status': ['', 'S', '.'], 'iterations': [0, 5, 'abc'], 'Q': [1], 'x': [2]}[nm]))
        case['fills'] = fills
        case['strict_arg'] = draw(st.sampled_from([None, None, True, False]))
        case['rep'] = draw(tapes(2))
        return case
    return cases()


# --- old spans with a repeated label (added after seeded change C12-t) --------------------------------------------------------
def _rep_span(flavour, labs):
    import pandas as pd
    if flavour == 'list':
        return list(labs)
    if flavour == 'np':
        return np.array(labs)
    return pd.Index(labs)


def check_repeated_old(case):
    """Old span with a repeated label. The statement does not say WHICH of the equally labelled old periods supplies the
    value, and the pinned tree refuses some of these calls (NumPy / pandas lookups that are not a single position), so the
    oracle is: the call either refuses (raises, original untouched) or returns an object in which every new period whose
    label occurs in the old span holds the old value of ONE of the positions carrying that label, and every other period
    holds the fill; never a fill for a label that is present, never an old value for a label that is absent."""
    old_labels = [(_STR[x] if case['str'] else x) for x in case['old']]
    new_labels = [(_STR[x] if case['str'] else x) for x in case['new']]
    res = Result(classes=['old:' + case['flavour'], 'str' if case['str'] else 'int'])
    n = len(old_labels)
    obj = VectorContainer(_rep_span(case['flavour'], old_labels))
    obj.add_variable('X', np.arange(1.0, n + 1) * 10)
    obj.add_variable('N', list(range(1, n + 1)), dtype=int)
    before = snapshot.snapshot(obj)
    out = attempt(obj.reindex, _rep_span(case['flavour'], new_labels))
    detail = f'container old={old_labels!r} new={new_labels!r} flavour={case["flavour"]}'
    d = snapshot.first_diff_key(before, snapshot.snapshot(obj))
    if d:
        res.fail(f'original-changed/{d.split("/")[0]}', f'{detail}: the original changed at {d}')
    hits = [[i for i, x in enumerate(old_labels) if x == lab] for lab in new_labels]
    res.nontrivial = any(len(h) > 1 for h in hits)
    if not out.ok:
        res.tag('refused')
        if not any(len(h) > 1 for h in hits):
            # no requested label is ambiguous: the ordinary statement applies, the call has to succeed
            res.fail(f'repeated-old/raised-{out.exc_name}/{case["flavour"]}', f'{detail}: {out!r}')
        return res
    new = out.value
    for nm, fill in (('X', float('nan')), ('N', 0)):
        got = new[nm].tolist()
        if len(got) != len(new_labels):
            res.fail('repeated-old/shape', f'{detail}: {nm} has {len(got)} cells')
            continue
        for i, h in enumerate(hits):
            allowed = [obj[nm][j].item() for j in h] if h else [fill]
            if not any(same_value(got[i], a) for a in allowed):
                res.fail(f'repeated-old/cell/{"overlap" if h else "fill"}/{case["flavour"]}',
                         f'{detail}: {nm}[{i}] (label {new_labels[i]!r}) = {got[i]!r}, allowed {allowed!r}')
                break
    return res


_STR = {0: 'z', 1: 'a', 2: 'b', 3: 'c', 4: 'd', 5: 'y', 6: 'x'}


def gen_repeated_old():
    import itertools
    olds = [o for m in (2, 3, 4) for o in itertools.product((1, 2, 3), repeat=m) if len(set(o)) < len(o)]
    news = [(1, 2, 3, 4), (0, 1, 3), (2, 2), (5, 6), (2,), (3, 2, 1), (1,), ()]
    for flavour in ('list', 'np', 'pd'):
        for is_str in (False, True):
            for o in olds:
                for nw in news:
                    yield {'flavour': flavour, 'str': is_str, 'old': list(o), 'new': list(nw)}


def phases(tier):
    quick = tier == 'quick'
    return [
        Phase('span-pairs', check_case, gen=gen_pairs(3 if quick else 5), exhaustive=False,
              note='fixed family of new spans per old span; fill sets cycled'),
        Phase('random', check_case, strategy=strategy, examples=8000 if quick else 200000),
        Phase('repeated-old-labels', check_repeated_old, gen=gen_repeated_old, exhaustive=True,
              note='old spans of 2-4 labels over {1,2,3} with at least one repeat (list / NumPy / pandas Index, int and str '
                   'labels) x 8 new spans; refuse-or-one-of-the-old-values oracle'),
    ]
