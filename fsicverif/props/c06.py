"""C06 - numerical-error and failure policies follow the documented state machine."""
import itertools

import numpy as np

from .. import env  # noqa: F401
from ..core import Phase, Result
from .. import grammar as G
from .. import refsolver
from .. import solvecheck as SC
from ..represent import Rep, with_rep
from ..util import attempt

import fsic

ID = 'C06'
TITLE = 'Numerical-error and failure policies follow the documented state machine'
LEVEL = 'fault_enumeration'
DESIGN_REF = 'DESIGN.md section 5, C06; 2.8(2)'
RULE = (
    'fault enumeration on scripted models: every placement of a fault kind {NaN, +inf, -inf, warning-raising NumPy '
    'operation, Python exception} at every (check variable 1..2 of 2-3, pass 1..max_iter, max_iter <= bound), optionally '
    'healing (finite value) on each later pass, with a moving or a still companion variable, x errors in {raise, skip, '
    'ignore, replace, <invalid>} x failures x catch_first_error x min_iter in {0, 2, max_iter}; pre-existing non-finite '
    'check values; hook exceptions; multi-period solve() with a fault in one period; plus parser-built models whose '
    'equations fault naturally (1/X, log(X), exp(X), X**0.5 with X driven to the fault at a chosen pass). Oracle: the '
    'reference state machine (status, iterations, flag, exception type and chained cause, stored cells, passes '
    'performed). Non-trivial: the fault is not on (variable 1, pass 1), or it heals, or it falls on the last permitted '
    'pass, or a pre-existing non-finite value is present. Distinct = distinct case JSON.'
)
ASSUMPTIONS = ["errors='replace' replaces non-finite entries in the solver's remembered check vector (documented), stored cells are not asserted",
               "for an invalid `errors` value only the status alphabet and exception in {ValueError, SolutionError, NonConvergenceError} are asserted",
               'an evaluation-pass exception stamps E / the pass number only under errors=raise (the statement says so)']
TECHNIQUE = 'exhaustive fault-placement enumeration on scripted models + naturally faulting generated programs, against a reference state machine'
LEVEL_TEXT = ('Every fault kind is injected at every (variable, pass) position up to a bound under every policy combination and '
              'the observable outcome is compared with the reference machine; naturally faulting parser-built models tie the '
              'scripted faults to real NumPy behaviour.')
LEVEL_NOTE = 'Trusted: refsolver.py, scripted.py. Not covered: faults beyond max_iter bound, more than one fault per run (except heal).'

FAULTS = [['set', 'nan'], ['set', 'inf'], ['set', '-inf'], 'warn', ['raise', 'ZeroDivisionError'], ['raise', 'KeyError'],
          ['raise', 'SolutionError'], ['raise', 'NonConvergenceError'],
          # exceptions outside the arithmetic / lookup families, and a user-defined one
          ['raise', 'RuntimeError'], ['raise', 'AssertionError'], ['raise', 'NotImplementedError'], ['raise', 'UserDefined'],
          # a warning of another category than NumPy's RuntimeWarning, from a guarded operation in the model's own code
          # (the result it goes on to store is non-finite / an ordinary finite value)
          ['warn', 'UserWarning', 'inf'], ['warn', 'DeprecationWarning', 2.0]]
ERRORS = ['raise', 'skip', 'ignore', 'replace', 'bogus']


def gen_faults(bound):
    def gen():
        for max_iter in range(1, bound + 1):
            for fk, fault in enumerate(FAULTS):
                for var in ('A', 'B'):
                    for fpass in range(1, max_iter + 1):
                        heals = [None] + list(range(fpass + 1, max_iter + 1))
                        for heal in heals:
                            for companion in (None, 'moving'):
                                script = {}
                                if companion:
                                    for k in range(1, max_iter + 1):
                                        script[f'1:{k}'] = [['C', ['move', 1.0 if k < max_iter - 1 else 0.125]]]
                                script.setdefault(f'1:{fpass}', [])
                                script[f'1:{fpass}'] = script[f'1:{fpass}'] + [[var, fault]]
                                if heal:
                                    script.setdefault(f'1:{heal}', [])
                                    script[f'1:{heal}'] = script[f'1:{heal}'] + [[var, ['set', 2.0]]]
                                for errors in ERRORS:
                                    for failures in ('raise', 'ignore'):
                                        for cfe in (True, False):
                                            for min_iter in sorted({0, 2, max_iter}):
                                                if min_iter > max_iter:
                                                    continue
                                                yield {'nvars': 3, 'n': 2, 't': 1, 'script': script,
                                                       'fault_at': [var, fpass], 'heal': heal,
                                                       'opts': {'min_iter': min_iter, 'max_iter': max_iter, 'tol': 0.5,
                                                                'failures': failures, 'errors': errors,
                                                                'catch_first_error': cfe}}
        # pre-existing non-finite check values
        for bad in ('nan', 'inf', '-inf'):
            for where in ('A', 'B'):
                for errors in ERRORS:
                    for cfe in (True, False):
                        for max_iter in (1, 2, 3):
                            for heal in (None, 1, 2):
                                script = {f'1:{heal}': [[where, ['set', 1.0]]]} if heal and heal <= max_iter else {}
                                init = {'A': [1.0, 1.0], 'B': [2.0, 2.0], 'X': [0.0, 0.0]}
                                init[where] = [1.0, bad]
                                yield {'nvars': 2, 'n': 2, 't': 1, 'script': script, 'init': init, 'preexisting': True,
                                       'opts': {'min_iter': 0, 'max_iter': max_iter, 'tol': 0.5, 'failures': 'ignore',
                                                'errors': errors, 'catch_first_error': cfe}}
        # pre-existing non-finite values and an offset: the starting state is the one AFTER the offset copy
        for bad in ('nan', 'inf'):
            for offset in (1, -1):
                for where in ('source', 'target'):
                    for errors in ERRORS:
                        init = {'A': [1.0, 1.0, 1.0], 'B': [2.0, 2.0, 2.0], 'X': [0.0, 0.0, 0.0]}
                        init['A'] = [1.0, 1.0, 1.0]
                        init['A'][1 + offset if where == 'source' else 1] = bad
                        yield {'nvars': 2, 'n': 3, 't': 1, 'script': {'1:1': [['B', ['move', 0.125]]]}, 'init': init, 'preexisting': True,
                               'opts': {'min_iter': 0, 'max_iter': 2, 'tol': 0.5, 'failures': 'ignore', 'errors': errors, 'offset': offset}}
        # very large but finite values in several check variables are not a fault (their sum would overflow)
        for big in (1e308, -1e308, 1.7e308):
            for errors in ERRORS[:4]:
                for cfe in (True, False):
                    script = {'1:1': [['A', ['set', big]], ['B', ['set', big]]]}
                    yield {'nvars': 2, 'n': 2, 't': 1, 'script': script, 'heal': None, 'fault_at': None, 'preexisting': True,
                           'opts': {'min_iter': 0, 'max_iter': 3, 'tol': 0.5, 'failures': 'ignore', 'errors': errors, 'catch_first_error': cfe}}
                    yield {'nvars': 2, 'n': 2, 't': 1, 'script': {}, 'init': {'A': [1.0, big], 'B': [1.0, big], 'X': [0.0, 0.0]},
                           'preexisting': True,
                           'opts': {'min_iter': 0, 'max_iter': 2, 'tol': 0.5, 'failures': 'ignore', 'errors': errors, 'catch_first_error': cfe}}
        # pre-existing non-finite arriving in a non-check variable (must not matter)
        for errors in ERRORS[:4]:
            yield {'nvars': 2, 'n': 2, 't': 1, 'check': ['A'], 'init': {'A': [1.0, 1.0], 'B': [1.0, 'nan'], 'X': [0.0, 0.0]},
                   'script': {}, 'opts': {'min_iter': 0, 'max_iter': 2, 'tol': 0.5, 'failures': 'ignore', 'errors': errors}}
        # a fault in a variable of a model that declares no check variables (CHECK = []): it is nobody's business
        for fault in FAULTS:
            for errors in ERRORS[:4]:
                for cfe in (True, False):
                    for max_iter in (1, 3):
                        yield {'nvars': 2, 'n': 2, 't': 1, 'check': [], 'script': {'1:1': [['A', fault]]}, 'preexisting': True,
                               'opts': {'min_iter': 0, 'max_iter': max_iter, 'tol': 0.5, 'failures': 'ignore', 'errors': errors,
                                        'catch_first_error': cfe}}
        for errors in ERRORS[:4]:
            yield {'nvars': 2, 'n': 2, 't': 1, 'check': [], 'init': {'A': [1.0, 'nan'], 'B': [1.0, 'inf'], 'X': [0.0, 0.0]},
                   'script': {}, 'preexisting': True, 'opts': {'min_iter': 0, 'max_iter': 2, 'tol': 0.5, 'failures': 'ignore', 'errors': errors}}
        # hook exceptions under every policy
        for hook in ({'before': 'KeyError'}, {'after': 'ZeroDivisionError'}, {'before': 'SolutionError'}, {'after': 'NonConvergenceError'}):
            for errors in ERRORS[:4]:
                for cfe in (True, False):
                    yield {'nvars': 1, 'n': 2, 't': 0, 'hooks': hook, 'script': {},
                           'opts': {'min_iter': 0, 'max_iter': 2, 'tol': 0.5, 'failures': 'ignore', 'errors': errors,
                                    'catch_first_error': cfe}}
        # multi-period solve(): a fault in one period, every policy ('skip' must move on)
        for fperiod in range(3):
            for fault in FAULTS:
                for errors in ERRORS[:4]:
                    for failures in ('raise', 'ignore'):
                        for fpass in (1, 2):
                            script = {f'{fperiod}:{fpass}': [['A', fault]]}
                            yield {'nvars': 1, 'n': 3, 't': 0, 'entry': 'solve', 'script': script,
                                   'fault_at': ['A', fpass], 'fault_period': fperiod,
                                   'opts': {'min_iter': 0, 'max_iter': 3, 'tol': 0.5, 'failures': failures, 'errors': errors}}
    return gen


def check_fault(case):
    res = SC.check_scripted(case)
    fa = case.get('fault_at')
    res.nontrivial = bool(case.get('preexisting') or case.get('heal') or
                          (fa and (fa != ['A', 1] or fa[1] == case['opts']['max_iter'])) or case.get('hooks')
                          or case.get('entry') == 'solve')
    res.tag('errors=' + str(case['opts'].get('errors')))
    if fa:
        script = case['script']
        toks = [tok for v in script.values() for nm, tok in v if nm == fa[0] and tok != 'same' and not (isinstance(tok, list) and tok[0] == 'move')]
        if toks:
            res.tag('fault:' + (toks[0] if isinstance(toks[0], str) else '-'.join(map(str, toks[0]))))
    return res


# -- naturally faulting parser-built models ----------------------------------------------------------------

NATURAL = {
    'div': ['bin', '/', ['num', '1'], ['var', 'X', 'v', None]],
    'log': ['call', 'log', [['var', 'X', 'v', None]]],
    'exp': ['call', 'exp', [['bin', '*', ['num', '400'], ['var', 'X', 'v', None]]]],
    'sqrt': ['bin', '**', ['var', 'X', 'v', None], ['num', '0.5']],
    'np.log': ['call', 'np.log', [['var', 'X', 'v', None]]],
}


def check_natural(case):
    kind = case['kind']
    # X walks by `step` each pass and hits the faulting value at pass `fpass`; Y = f(X); Z reads Y
    prog = [
        ['assign', ['var', 'X', 'v', None], ['bin', '+', ['var', 'X', 'v', None], ['var', 'step', 'p', None]]],
        ['assign', ['var', 'Y', 'v', None], NATURAL[kind]],
        ['assign', ['var', 'Z', 'v', None], ['bin', '+', ['var', 'Y', 'v', None], ['num', '1']]],
    ]
    if case.get('order'):
        prog = [prog[1], prog[0], prog[2]]
    ref = G.Reference(prog)
    text, _ = G.render_program(prog, [])
    M = fsic.build_model(fsic.parse_model(text))
    n = 2
    fpass = case['fpass']
    target = {'div': 0.0, 'log': 0.0, 'exp': 2.0, 'sqrt': -1.0, 'np.log': -1.0}[kind]
    step = 1.0
    if kind == 'exp':
        x0 = target - step * fpass
    else:
        step = -1.0
        x0 = target - step * fpass
    if case.get('order'):
        x0 = x0 + step   # Y is computed before X moves
    init = {'X': [x0] * n, 'Y': [1.0] * n, 'Z': [2.0] * n, 'step': [step] * n}
    m = M(range(n), **{k: np.array(v) for k, v in init.items()})
    m.check = list(case.get('check') or ['Y', 'Z'])
    opts = dict(case['opts'])
    rep = Rep(case.get('rep'))
    got = attempt(m.solve_t, rep.int(1), **rep.opts(opts))
    st = SC.ref_state(init, n)
    want = refsolver.solve_t(st, 1, n, check=list(case.get('check') or ['Y', 'Z']), endogenous=ref.endogenous,
                             evaluate=SC.ref_program_evaluate(ref, list(range(n))), **opts)
    res = Result(nontrivial=True, classes=['natural', 'natural:' + kind, 'errors=' + str(opts.get('errors'))])
    detail = f'{text!r} X0={x0} step={step} {SC.opts_text(opts)} check={case.get("check")}'
    cls = 'natural/errors=' + str(opts.get('errors'))
    SC.compare_outcome(res, cls, got, want, detail)
    SC.compare_states(res, cls, m, st, ref.names, detail)
    return res


BENIGN = {
    # results that underflow to a denormal or to zero: finite values, no fault
    'denormal-product': (['bin', '*', ['var', 'X', 'v', None], ['var', 'W', 'v', None]], {'X': 1e-300, 'W': 1e-10}),
    'zero-product': (['bin', '*', ['var', 'X', 'v', None], ['var', 'X', 'v', None]], {'X': 1e-200, 'W': 1.0}),
    'exp-underflow': (['call', 'exp', [['var', 'X', 'v', None]]], {'X': -1000.0, 'W': 1.0}),
    'tiny-quotient': (['bin', '/', ['var', 'X', 'v', None], ['var', 'W', 'v', None]], {'X': 1e-300, 'W': 1e300}),
    'huge-but-finite': (['bin', '*', ['var', 'X', 'v', None], ['var', 'W', 'v', None]], {'X': 1e154, 'W': 1e154}),
}


def check_benign(case):
    """Extreme but finite arithmetic (underflow to a denormal / to zero, results near the largest float) is not a fault under
    any policy: the period converges like any other."""
    rhs, values = BENIGN[case['kind']]
    prog = [['assign', ['var', 'Y', 'v', None], rhs], ['assign', ['var', 'Z', 'v', None], ['bin', '+', ['var', 'Y', 'v', None], ['num', '1']]]]
    ref = G.Reference(prog)
    text, _ = G.render_program(prog, [])
    M = fsic.build_model(fsic.parse_model(text))
    n = 2
    init = {'Y': [1.0] * n, 'Z': [2.0] * n, 'X': [values['X']] * n, 'W': [values['W']] * n}
    init = {k: v for k, v in init.items() if k in ref.names}
    m = M(range(n), **{k: np.array(v) for k, v in init.items()})
    opts = dict(case['opts'])
    got = attempt(m.solve_t, 1, **opts)
    st = SC.ref_state(init, n)
    want = refsolver.solve_t(st, 1, n, check=ref.endogenous, endogenous=ref.endogenous,
                             evaluate=SC.ref_program_evaluate(ref, list(range(n))), **opts)
    res = Result(nontrivial=True, classes=['benign-extremes', 'benign:' + case['kind'], 'errors=' + str(opts.get('errors'))])
    detail = f'{text!r} {values} {SC.opts_text(opts)}'
    cls = 'benign/' + case['kind']
    SC.compare_outcome(res, cls, got, want, detail)
    SC.compare_states(res, cls, m, st, ref.names, detail)
    return res


def gen_benign():
    def gen():
        for kind in BENIGN:
            for errors in ERRORS[:4]:
                for cfe in (True, False):
                    for max_iter in (1, 3):
                        yield {'kind': kind, 'opts': {'min_iter': 0, 'max_iter': max_iter, 'tol': 0.5, 'failures': 'ignore',
                                                      'errors': errors, 'catch_first_error': cfe}}
    return gen


def gen_natural(bound):
    def gen():
        for kind in NATURAL:
            for fpass in range(1, bound + 1):
                for max_iter in range(fpass, bound + 2):
                    for errors in ERRORS:
                        for cfe in (True, False):
                            for failures in ('raise', 'ignore'):
                                for order in (0, 1):
                                    for check in (None, ['Z'], ['X', 'Y', 'Z']):
                                        yield {'kind': kind, 'fpass': fpass, 'order': order, 'check': check,
                                               'opts': {'min_iter': 0, 'max_iter': max_iter, 'tol': 0.5, 'failures': failures,
                                                        'errors': errors, 'catch_first_error': cfe}}
    return gen


def phases(tier):
    quick = tier == 'quick'
    return [
        Phase('fault-placements', check_fault, gen=SC.with_history(with_rep(gen_faults(3 if quick else 6))), exhaustive=True),
        Phase('benign-extremes', check_benign, gen=gen_benign(), exhaustive=True, shards=1),
        Phase('natural-faults', check_natural, gen=with_rep(gen_natural(2 if quick else 6)), exhaustive=True),
    ]
