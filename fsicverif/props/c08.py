"""C08 - the linker solves its submodels jointly and consistently."""
import itertools

import numpy as np

from .. import env  # noqa: F401
from ..core import Phase, Result
from .. import grammar as G
from .. import scripted, snapshot
from .. import solvecheck as SC
from ..represent import Rep, tapes, with_rep
from ..util import attempt, same_array

import fsic
from fsic.exceptions import InitialisationError

ID = 'C08'
TITLE = 'Linker solves its submodels jointly and consistently'
LEVEL = 'exploration'
DESIGN_REF = 'DESIGN.md section 5, C08'
RULE = (
    'linkers over 0..3 scripted submodels (differing lags/leads) with a scripted linker variable updated in the pre/post '
    'hooks: every joint outcome sequence over {same, move tol/2, move tol, move 2tol} for (linker variable, submodel a, '
    'submodel b) up to max_iter passes x min_iter x failures, enumerated exhaustively; every subset and order for '
    '`submodels=`, unknown ids, differing spans, offsets; plus a differential of a linker around one parser-built model '
    'against the bare model on Hypothesis-generated linear systems. Oracle: a linker reference machine written from the '
    'statement (call order pre-hook / selected submodels in selected order / post-hook per iteration; solved only if '
    'every check variable everywhere moved by < tol; one status on linker and selected submodels; selected iteration '
    'Submodels without endogenous variables or with an edited instance-level `endogenous` list (what an offset copies); '
    'linker.solve(start, end) against the loop of solve_t on a twin over every range incl. empty ones. '
    'counts = linker count; unselected submodels untouched and never evaluated). Non-trivial: >= 2 submodels with a '
    'proper subset or non-default order selected, or the deciding pass moved some variable by an amount in '
    '[tol, sqrt(tol)). Distinct = distinct case JSON.'
)
ASSUMPTIONS = ['check values stay finite (numerical-error policies of linkers are not part of the statement)',
               'offset seeds the endogenous variables of the linker and of each selected submodel from t+offset']
TECHNIQUE = 'exhaustive enumeration of joint outcome sequences and selections on scripted linkers against a reference machine; differential linker-vs-bare-model on generated systems'
LEVEL_TEXT = ('The linker is driven through every joint outcome sequence up to a bound and every selection/order, and compared '
              'with a reference machine; a one-model linker is compared with the bare model on generated systems.')
LEVEL_NOTE = 'Trusted: the linker reference machine in this module, scripted submodels. Not covered: more than 3 submodels, nested linkers.'

SUB_IDS = ['a', 'b', 'c']


def make_linker_class():
    class Linker(fsic.BaseLinker):
        ENDOGENOUS = ['L']
        EXOGENOUS = []
        PARAMETERS = []
        ERRORS = []
        NAMES = ENDOGENOUS
        CHECK = ENDOGENOUS

        def _n(self, t):
            return t + len(self.span) if t < 0 else t

        def _apply(self, t, k, where):
            toks = self.__dict__['_lscript'].get(f'{self._n(t)}:{k}:{where}')
            if toks:
                scripted.apply_pass(lambda nm: self.__dict__['_' + nm][t],
                                    lambda nm, v: self.__dict__['_' + nm].__setitem__(t, v), toks)

        def solve_t_before(self, t, *args, **kwargs):
            self.__dict__['_glog'].append(('solve_before', kwargs.get('iteration'), tuple(kwargs.get('submodels') if kwargs.get('submodels') is not None else ())))

        def solve_t_after(self, t, *args, **kwargs):
            self.__dict__['_glog'].append(('solve_after', kwargs.get('iteration'), tuple(kwargs.get('submodels') if kwargs.get('submodels') is not None else ())))

        def evaluate_t_before(self, t, *args, **kwargs):
            k = kwargs.get('iteration')
            self.__dict__['_glog'].append(('pre', k))
            self._apply(t, k, 'pre')

        def evaluate_t_after(self, t, *args, **kwargs):
            k = kwargs.get('iteration')
            self.__dict__['_glog'].append(('post', k))
            self._apply(t, k, 'post')

    return Linker


def build(case):
    n = case.get('n', 3)
    glog = []
    subs = {}
    for spec in case['subs']:
        # ('endogenous': [] - a submodel that declares no endogenous variable: its own code still moves A, a check variable)
        endo = spec.get('endogenous', ['A'])
        cls = scripted.make_class(endo, check=['A'], exogenous=('X',) if 'A' in endo else ('A', 'X'),
                                  lags=spec.get('lags', 0), leads=spec.get('leads', 0))
        span = range(n) if not spec.get('span') else range(spec['span'][0], spec['span'][1])
        m = cls(span, A=np.array([1.0 + i for i in range(len(span))]), X=np.arange(float(len(span))))
        scripted.arm(m, spec.get('script'))
        m.__dict__['_id'] = spec['id']
        if 'check' in spec:
            m.check = list(spec['check'])        # the instance's own list (the class-level CHECK is untouched)
        if 'instance_endogenous' in spec:
            m.endogenous = list(spec['instance_endogenous'])      # likewise: the object's own list of what an offset copies
        orig = m._evaluate

        def logged(t, *a, _m=m, _orig=orig, **kw):
            glog.append(('sub', _m.__dict__['_id'], kw.get('iteration')))
            return _orig(t, *a, **kw)
        m.__dict__['_evaluate'] = logged
        subs[spec['id']] = m
    return subs, glog, n


def ref_linker(case, n):
    """Reference machine; returns expected outcome dict."""
    opts = case['opts']
    t = case['t']
    T = t + n if t < 0 else t
    ids = [s['id'] for s in case['subs']]
    selected = case.get('select')
    if selected is None:
        selected = list(ids)
    exp = {'exc': None, 'log': [], 'returned': None}
    lin = {'L': np.array([5.0 + i for i in range(n)])}
    subs = {s['id']: {'A': np.array([1.0 + i for i in range(n)]), 'X': np.arange(float(n)), 'status': ['-'] * n, 'iterations': [-1] * n}
            for s in case['subs']}
    lstat, lit = ['-'] * n, [-1] * n
    exp.update(lin=lin, subs=subs, lstatus=lstat, literations=lit)
    for sid in selected:
        if sid not in ids:
            exp['exc'] = 'KeyError'
            return exp
    offset = opts.get('offset', 0)
    if offset:
        if T + offset < 0 or T + offset >= n:
            exp['exc'] = 'IndexError'
            return exp
        lin['L'][T] = lin['L'][T + offset]
        endo_of = {s['id']: s.get('instance_endogenous', s.get('endogenous', ['A'])) for s in case['subs']}
        for sid in selected:
            if 'A' in endo_of[sid]:        # (the copy concerns the variables on the object's `endogenous` list)
                subs[sid]['A'][T] = subs[sid]['A'][T + offset]
            if 'X' in endo_of[sid]:
                subs[sid]['X'][T] = subs[sid]['X'][T + offset]
    scripts = {s['id']: s.get('script') or {} for s in case['subs']}
    lscript = case.get('linker_script') or {}
    tol = opts.get('tol', 1e-10)
    min_iter, max_iter = opts.get('min_iter', 0), opts.get('max_iter', 100)
    exp['log'].append(('solve_before', 0, tuple(selected)))

    inst_check = {s['id']: s.get('check', ['A']) for s in case['subs']}

    def check():
        out = [float(lin['L'][T])]
        for sid in ids:
            if sid in selected:
                out += [float(subs[sid][nm][T]) for nm in inst_check[sid]]
        return out

    def apply(values, toks):
        if toks:
            scripted.apply_pass(lambda nm: values[nm][T], lambda nm, v: values[nm].__setitem__(T, v), toks, strict_ref=False)

    current = check()
    status = 'F'
    k = 0
    exp['deciding_move'] = None
    for k in range(1, max_iter + 1):
        previous = current
        exp['log'].append(('pre', k))
        apply(lin, lscript.get(f'{T}:{k}:pre'))
        for sid in selected:
            exp['log'].append(('sub', sid, k))
            apply(subs[sid], scripts[sid].get(f'{T}:{k}'))
        exp['log'].append(('post', k))
        apply(lin, lscript.get(f'{T}:{k}:post'))
        current = check()
        if k < min_iter:
            continue
        moves = [abs(c - p) for c, p in zip(current, previous)]
        exp['deciding_move'] = max(moves) if moves else 0.0
        if all(mv < tol for mv in moves):
            status = '.'
            exp['log'].append(('solve_after', k, tuple(selected)))
            break
    else:
        k = max_iter
    lstat[T] = status
    lit[T] = k
    for sid in selected:
        subs[sid]['status'][T] = status
        subs[sid]['iterations'][T] = k
    if status == 'F' and opts.get('failures', 'raise') == 'raise':
        exp['exc'] = 'NonConvergenceError'
    else:
        exp['returned'] = status == '.'
    return exp


def check_case(case):
    opts = dict(case['opts'])
    subs, glog, n = build(case)
    res = Result(classes=['linker', f'submodels={len(subs)}'])
    Linker = make_linker_class()
    made = attempt(lambda: Linker(subs, L=np.array([5.0 + i for i in range(n)])) if subs else Linker({}, span=range(n)))
    spans_differ = len({(m.span.start, m.span.stop) for m in subs.values()}) > 1
    if spans_differ:
        res.tag('differing-spans')
        res.nontrivial = True
        if made.ok or not isinstance(made.exc, InitialisationError):
            res.fail('construction/differing-spans-accepted', f'{case["subs"]}: {made!r}')
        return res
    if not made.ok:
        res.fail(f'construction/raised-{made.exc_name}', f'{case["subs"]}: {made!r}')
        return res
    linker = made.value
    if not subs:
        res.tag('no-submodels')
        if (linker.LAGS, linker.LEADS) != (0, 0):
            res.fail('construction/lags-leads', f'empty linker has LAGS {linker.LAGS} LEADS {linker.LEADS}')
        return res
    linker.__dict__['_glog'] = glog
    linker.__dict__['_lscript'] = dict(case.get('linker_script') or {})
    wantL = max(s.get('lags', 0) for s in case['subs'])
    wantK = max(s.get('leads', 0) for s in case['subs'])
    if (linker.LAGS, linker.LEADS) != (wantL, wantK) or (linker.lags, linker.leads) != (wantL, wantK):
        res.fail('construction/lags-leads', f'{case["subs"]}: linker LAGS/LEADS {linker.LAGS}/{linker.LEADS} '
                 f'(instance {linker.lags}/{linker.leads}), maxima are {wantL}/{wantK}')
    t = case['t']
    T = t + n if t < 0 else t
    rep = Rep(case.get('rep'))
    kw = rep.opts(opts)
    if case.get('select') is not None:
        kw['submodels'] = rep.seq(case['select'])      # a tuple, a dict-keys view or an array selects the same submodels
    rep.tag(res)
    before = {sid: snapshot.snapshot(m) for sid, m in subs.items()}
    if case.get('history') == 'warm-restore':
        # the same call was made once before on these objects; afterwards every series and the solution records were put
        # back by whole-series assignment (new array objects, the initial contents) - the measured call starts afresh
        attempt(linker.solve_t, t, **kw)
        linker.L = [5.0 + i for i in range(n)]
        linker.status = '-'
        linker.iterations = -1
        for m_ in subs.values():
            m_.A = [1.0 + i for i in range(len(m_.span))]
            m_.status = '-'
            m_.iterations = -1
            for key in ('_log', '_vals'):
                if key in m_.__dict__:
                    del m_.__dict__[key][:]
        del glog[:]
        before = {sid: snapshot.snapshot(m_) for sid, m_ in subs.items()}
        res.tag('history:warm-restore')
    if case.get('via_solve'):
        # the multi-period entry point restricted to the one period: every option has to be forwarded to solve_t
        got = attempt(linker.solve, start=T, end=T, **kw)
        res.tag('entry:solve(start=end)')
    else:
        got = attempt(linker.solve_t, t, **kw)
    exp = ref_linker(case, n)
    ids = [s['id'] for s in case['subs']]
    selected = case.get('select') if case.get('select') is not None else ids
    tol = opts.get('tol', 1e-10)
    dm = exp.get('deciding_move')
    in_band = dm is not None and tol <= dm < tol ** 0.5
    proper = len(ids) >= 2 and list(selected) != ids
    res.nontrivial = in_band or proper
    if in_band:
        res.tag('deciding-move-in-[tol,sqrt(tol))')
    if proper:
        res.tag('proper-subset-or-order')
    cls = 'max_iter=0' if opts.get('max_iter', 100) == 0 else ('offset' if opts.get('offset') else
                                                            ('selection' if case.get('select') is not None else 'general'))
    detail = f'subs={case["subs"]} select={case.get("select")} linker_script={case.get("linker_script")} t={t} {SC.opts_text(opts)}'
    returned, exc, cause = SC.outcome_of(got)
    if case.get('via_solve') and exc is None:
        labels_, idx_, flags_ = returned
        if list(labels_) != [T] or list(idx_) != [T] or len(flags_) != 1:
            res.fail(f'linker/{cls}/solve-triple', f'{detail}: solve(start={T}, end={T}) returned {returned!r}')
            return res
        returned = flags_[0]
    if exc != exp['exc']:
        res.fail(f'linker/{cls}/exception-type', f'{detail}: fsic {got!r}, reference exc={exp["exc"]} returned={exp["returned"]}')
        return res
    if exp['exc'] == 'KeyError':
        res.tag('unknown-id')
        for sid, m in subs.items():
            d = snapshot.first_diff_key(before[sid], snapshot.snapshot(m))
            if d and 'iterations' not in d and '_log' not in d:
                res.fail('linker/unknown-id/changed-state', f'{detail}: submodel {sid} changed at {d}')
            # (first_diff_key stops at the first difference, which may be the tolerated iteration counter: the values
            # and statuses are compared on their own as well)
            want_A = np.array([1.0 + i for i in range(len(m.span))])
            if not same_array(np.asarray(m.A), want_A) or any(str(x) != '-' for x in m.status):
                res.fail('linker/unknown-id/changed-state', f'{detail}: submodel {sid}: A = {np.asarray(m.A).tolist()}, status {list(m.status)} '
                         f'after the refused call')
        if not same_array(np.asarray(linker.L), np.array([5.0 + i for i in range(n)])):
            res.fail('linker/unknown-id/changed-state', f'{detail}: linker L = {linker.L.tolist()} after the refused call')
        return res
    if exc is None and bool(returned) != bool(exp['returned']):
        res.fail(f'linker/{cls}/return-value', f'{detail}: returned {returned!r}, reference {exp["returned"]!r}')
    if [str(x) for x in linker.status] != exp['lstatus'] or [int(x) for x in linker.iterations] != exp['literations']:
        res.fail(f'linker/{cls}/linker-status-or-iterations', f'{detail}: linker status {list(linker.status)} iterations '
                 f'{list(linker.iterations)}; reference {exp["lstatus"]} {exp["literations"]}')
    if not same_array(np.asarray(linker.L), exp['lin']['L']):
        res.fail(f'linker/{cls}/linker-values', f'{detail}: L = {linker.L.tolist()}, reference {exp["lin"]["L"].tolist()}')
    for sid, m in subs.items():
        e = exp['subs'][sid]
        sel = 'selected' if sid in selected else 'unselected'
        if [str(x) for x in m.status] != e['status']:
            res.fail(f'linker/{cls}/{sel}-submodel-status', f'{detail}: submodel {sid} status {list(m.status)}, reference {e["status"]}')
        if [int(x) for x in m.iterations] != e['iterations']:
            res.fail(f'linker/{cls}/{sel}-submodel-iterations', f'{detail}: submodel {sid} iterations {list(m.iterations)}, '
                     f'reference {e["iterations"]}')
        if not same_array(np.asarray(m.A), e['A']):
            res.fail(f'linker/{cls}/{sel}-submodel-values', f'{detail}: submodel {sid} A = {m.A.tolist()}, reference {e["A"].tolist()}')
    if glog != exp['log']:
        res.fail(f'linker/{cls}/call-order', f'{detail}: call log {glog}, reference {exp["log"]}')
    return res


TOKS = ['same', ['move', 0.125], ['move', 0.25], ['move', 0.5]]   # tol = 0.25: tol/2, tol, 2 tol


def gen_lattice(bound):
    def gen():
        for i, case in enumerate(_gen_lattice(bound)()):
            yield case
            # the same case through linker.solve(start=t, end=t): selections and offsets always, the lattice every 7th
            if case['subs'] and all(not sp.get('span') for sp in case['subs']) and \
                    (case.get('select') is not None or case['opts'].get('offset') or i % 7 == 0):
                yield dict(case, via_solve=True)
            if case['subs'] and all(not sp.get('span') for sp in case['subs']) and i % 5 == 2:
                yield dict(case, history='warm-restore')
    return gen


def _gen_lattice(bound):
    def gen():
        tol = 0.25
        for max_iter in range(0, bound + 1):
            alphabet = range(4) if max_iter <= 2 else (0, 2)
            for seq in itertools.product(alphabet, repeat=3 * max_iter):
                lscript, sa, sb = {}, {}, {}
                for k in range(max_iter):
                    l, a, b = seq[3 * k:3 * k + 3]
                    if l:
                        lscript[f'1:{k + 1}:' + ('pre' if (k + l) % 2 else 'post')] = [['L', TOKS[l]]]
                    if a:
                        sa[f'1:{k + 1}'] = [['A', TOKS[a]]]
                    if b:
                        sb[f'1:{k + 1}'] = [['A', TOKS[b]]]
                for min_iter in range(0, max_iter + 1):
                    for failures in ('raise', 'ignore'):
                        yield {'subs': [{'id': 'a', 'script': sa}, {'id': 'b', 'script': sb, 'lags': 1}],
                               'linker_script': lscript, 'n': 3, 't': 1 if (min_iter + max_iter) % 2 else -2,
                               'opts': {'min_iter': min_iter, 'max_iter': max_iter, 'tol': tol, 'failures': failures}}
        # a submodel instance whose check list was edited after construction (emptied / exogenous only / doubled)
        for chk in ([], ['X'], ['A', 'X']):
            for mv in (0, 2, 3):
                sa = {'1:1': [['A', TOKS[3]]], '1:2': [['A', TOKS[mv]]]} if mv else {'1:1': [['A', TOKS[3]]]}
                for max_iter in (1, 2, 3):
                    yield {'subs': [{'id': 'a', 'script': sa, 'check': chk}, {'id': 'b', 'script': {}}], 'n': 3, 't': 1,
                           'opts': {'min_iter': 0, 'max_iter': max_iter, 'tol': 0.25, 'failures': 'ignore'}}
        # a submodel without endogenous variables (a data holder whose own code nevertheless runs every pass)
        for which in (0, 1):
            for mv in (0, 2, 3):
                for max_iter in (1, 2, 3, 4):
                    for offset in (0, -1):
                        sa = {'1:1': [['A', TOKS[3]]], '1:2': [['A', TOKS[mv]]]} if mv else {'1:1': [['A', TOKS[3]]]}
                        subs_ = [{'id': 'a', 'script': sa if which == 0 else {}}, {'id': 'b', 'script': sa if which == 1 else {}}]
                        subs_[which]['endogenous'] = []
                        opts_ = {'min_iter': 0, 'max_iter': max_iter, 'tol': 0.25, 'failures': 'ignore'}
                        if offset:
                            opts_['offset'] = offset
                        yield {'subs': subs_, 'n': 3, 't': 1, 'opts': opts_}
        # the instance's `endogenous` list edited after construction (a name added, the list cleared), with an offset
        for edit in (['A', 'X'], [], ['X']):
            for which in (0, 1):
                for offset in (-1, 1):
                    for max_iter in (1, 2):
                        subs_ = [{'id': 'a', 'script': {'1:1': [['A', TOKS[3]]]}}, {'id': 'b', 'script': {}}]
                        subs_[which]['instance_endogenous'] = edit
                        yield {'subs': subs_, 'n': 3, 't': 1, 'select': None if max_iter == 1 else ['b', 'a'],
                               'opts': {'min_iter': 0, 'max_iter': max_iter, 'tol': 0.25, 'failures': 'ignore', 'offset': offset}}
        # selections: every subset and order of three submodels, with scripts that would be visible if evaluated
        specs = [{'id': sid, 'lags': i, 'leads': 2 - i, 'script': {'1:1': [['A', ['move', 1.0 + i]]], '1:2': [['A', ['move', 0.5]]]}}
                 for i, sid in enumerate(SUB_IDS)]
        for r in range(0, 4):
            for sel in itertools.permutations(SUB_IDS, r):
                for max_iter in (1, 3, 4):
                    yield {'subs': specs, 'select': list(sel), 'n': 4, 't': 1,
                           'opts': {'min_iter': 0, 'max_iter': max_iter, 'tol': 0.25, 'failures': 'ignore'}}
        for sel in (['zz'], ['a', 'zz'], ['zz', 'b'], [0], ['a', 'b', 'zz'], ['c', 0, 'a']):
            yield {'subs': specs, 'select': sel, 'n': 4, 't': 1, 'opts': {'max_iter': 2, 'tol': 0.25, 'failures': 'ignore'}}
            # ... refused before anything is copied from another period either
            for offset in (-1, 1, 2):
                yield {'subs': specs, 'select': sel, 'n': 4, 't': 1,
                       'opts': {'max_iter': 2, 'tol': 0.25, 'failures': 'ignore', 'offset': offset}}
        # construction: differing spans, lags/leads maxima, no submodels
        yield {'subs': [], 'n': 3, 't': 0, 'opts': {'max_iter': 1}}
        for spans_ in ([(0, 3), (0, 4)], [(0, 3), (1, 4)], [(0, 3), (0, 3), (0, 2)]):
            yield {'subs': [{'id': SUB_IDS[i], 'span': list(sp)} for i, sp in enumerate(spans_)], 'n': 3, 't': 0,
                   'opts': {'max_iter': 1}}
        for l1, k1, l2, k2 in itertools.product(range(3), repeat=4):
            yield {'subs': [{'id': 'a', 'lags': l1, 'leads': k1}, {'id': 'b', 'lags': l2, 'leads': k2}], 'n': 3, 't': 1,
                   'opts': {'max_iter': 1, 'failures': 'ignore'}}
        # ... and over three submodels: the maximum may sit on the first, the middle or the last one
        for l1, k1, l2, k2, l3, k3 in itertools.product(range(3), repeat=6):
            yield {'subs': [{'id': 'a', 'lags': l1, 'leads': k1}, {'id': 'b', 'lags': l2, 'leads': k2},
                            {'id': 'c', 'lags': l3, 'leads': k3}], 'n': 5, 't': 2, 'opts': {'max_iter': 1, 'failures': 'ignore'}}
        # offsets
        for offset in (1, -1, 2, -2, 5):
            for t in (0, 1, 2, -1):
                yield {'subs': [{'id': 'a'}, {'id': 'b'}], 'select': None if t != 1 else ['b'], 'n': 3, 't': t,
                       'opts': {'max_iter': 2, 'tol': 0.25, 'failures': 'ignore', 'offset': offset}}
    return gen


# -- linker.solve(start, end) is the loop of linker.solve_t over the requested range (possibly empty) -------------------


def check_ranges(case):
    """Two identical linkers: solve(start, end) on one, the loop of solve_t on the other."""
    opts = dict(case['opts'])
    res = Result(classes=['linker-solve-range'])
    Linker = make_linker_class()
    twins = []
    for _ in range(2):
        subs, glog, n = build(case)
        lk = Linker(subs, L=np.array([5.0 + i for i in range(n)]))
        lk.__dict__['_glog'] = glog
        lk.__dict__['_lscript'] = {}
        twins.append((lk, subs))
    (A, subsA), (B, subsB) = twins
    L, K = A.lags, A.leads
    p0 = L if case.get('start') is None else case['start']
    p1 = n - 1 - K if case.get('end') is None else case['end']
    kw = {}
    if case.get('start') is not None:
        kw['start'] = case['start']
    if case.get('end') is not None:
        kw['end'] = case['end']
    got = attempt(A.solve, **kw, **opts)
    want, exc = ([], [], []), None
    for p in range(p0, p1 + 1):
        r = attempt(B.solve_t, p, **opts)
        if not r.ok:
            exc = r.exc
            break
        want[0].append(p), want[1].append(p), want[2].append(bool(r.value))
    empty = p0 > p1
    res.nontrivial = empty or exc is not None
    if empty:
        res.tag('empty-range')
    detail = f'subs={case["subs"]} n={n} LAGS={L} LEADS={K} solve({kw}, {SC.opts_text(opts)})'
    if exc is not None:
        if got.ok or type(got.exc) is not type(exc):
            res.fail('linker-solve/exception-type', f'{detail}: solve() {got!r}, the loop of solve_t raised {type(exc).__name__}')
    elif not got.ok:
        res.fail('linker-solve/raised-' + got.exc_name + ('/empty-range' if empty else ''), f'{detail}: {got!r}; the loop of solve_t gives {want}')
        return res
    elif [list(x) for x in got.value] != [want[0], want[1], want[2]]:
        res.fail('linker-solve/return-value' + ('/empty-range' if empty else ''), f'{detail}: returned {got.value!r}, the loop gives {want}')
    for (ma, mb, what) in [(A, B, 'linker')] + [(subsA[k], subsB[k], f'submodel {k}') for k in subsA]:
        d = snapshot.first_diff_key(snapshot.snapshot(ma), snapshot.snapshot(mb), ignore=('d._log', 'd._vals', 'd._glog'))
        if d:
            res.fail('linker-solve/state-differs-from-loop', f'{detail}: {what} differs at {d}')
            break
    return res


def gen_ranges():
    def gen():
        for n in (2, 3, 4):
            for l1, k1, l2, k2 in itertools.product(range(3), repeat=4):
                if max(l1, l2) > n - 1 or max(k1, k2) > n - 1:
                    continue         # (the default start / end would not even be a label of the span)
                subs_ = [{'id': 'a', 'lags': l1, 'leads': k1, 'script': {'1:1': [['A', ['move', 1.0]]]}},
                         {'id': 'b', 'lags': l2, 'leads': k2}]
                for failures in ('raise', 'ignore'):
                    yield {'subs': subs_, 'n': n, 'opts': {'max_iter': 2, 'tol': 0.25, 'failures': failures}}
        for n in (3, 4):
            for start in [None] + list(range(n)):
                for end in [None] + list(range(n)):
                    yield {'subs': [{'id': 'a', 'script': {'1:1': [['A', ['move', 1.0]]]}}, {'id': 'b', 'lags': 1}], 'n': n,
                           'start': start, 'end': end, 'opts': {'max_iter': 3, 'tol': 0.25, 'failures': 'ignore'}}
    return gen


# -- a linker around one parser-built model behaves like the bare model -----------------------------------------------


def check_single(case):
    a, b, c, d = case['coef']
    prog = [
        ['assign', ['var', 'Y', 'v', None], ['bin', '+', ['bin', '*', ['var', 'a', 'p', None], ['var', 'Z', 'v', None]],
                                             ['var', 'c', 'p', None]]],
        ['assign', ['var', 'Z', 'v', None], ['bin', '+', ['bin', '*', ['var', 'b', 'p', None],
                                                          ['var', 'Y', 'v', -1 if case.get('lagged') else None]],
                                             ['var', 'd', 'p', None]]],
    ]
    text, _ = G.render_program(prog, [])
    M = fsic.build_model(fsic.parse_model(text))
    n = 4
    init = {'Y': [1.0] * n, 'Z': [0.5] * n, 'a': [a] * n, 'b': [b] * n, 'c': [c] * n, 'd': [d] * n}
    bare = M(range(n), **{k: np.array(v) for k, v in init.items()})
    inner = M(range(n), **{k: np.array(v) for k, v in init.items()})
    linker = fsic.BaseLinker({'m': inner})
    opts = dict(case['opts'])
    entry = case.get('entry', 'solve_t')
    rep = Rep(case.get('rep'))
    ropts = rep.opts(opts)
    if entry == 'solve':
        r1 = attempt(bare.solve, **opts)
        r2 = attempt(linker.solve, **ropts)
    else:
        r1 = attempt(bare.solve_t, case['t'], **opts)
        r2 = attempt(linker.solve_t, rep.int(case['t']), **ropts)
    res = Result(classes=['single-model-linker', 'entry:' + entry])
    detail = f'{text!r} coef={case["coef"]} {entry} t={case["t"]} {SC.opts_text(opts)}'
    finite = all(np.all(np.isfinite(bare[k])) for k in ('Y', 'Z'))
    if not finite:
        res.tag('skipped:non-finite')
        return res
    its = [int(x) for x in bare.iterations]
    res.nontrivial = max(its) >= 2
    o1, o2 = SC.outcome_of(r1), SC.outcome_of(r2)
    if o1[1] != o2[1] or (o1[1] is None and repr(o1[0]) != repr(o2[0])):
        res.fail('single-model-linker/outcome', f'{detail}: bare model {r1!r}, linker {r2!r}')
    if [str(x) for x in bare.status] != [str(x) for x in inner.status] or [str(x) for x in bare.status] != [str(x) for x in linker.status]:
        res.fail('single-model-linker/status', f'{detail}: bare {list(bare.status)}, submodel {list(inner.status)}, linker {list(linker.status)}')
    if its != [int(x) for x in inner.iterations] or its != [int(x) for x in linker.iterations]:
        res.fail('single-model-linker/iterations', f'{detail}: bare {its}, submodel {list(inner.iterations)}, linker {list(linker.iterations)}')
    for k in ('Y', 'Z'):
        if not same_array(bare[k], inner[k]):
            res.fail('single-model-linker/values', f'{detail}: {k} bare {bare[k].tolist()}, in linker {inner[k].tolist()}')
            break
    return res


def strat_single():
    from hypothesis import strategies as st
    coef = st.sampled_from([0.5, -0.5, 0.25, 0.9, -0.9, 1.0, -1.0, 1.5, 0.0, 0.125])
    return st.fixed_dictionaries({
        'coef': st.tuples(coef, coef, st.sampled_from([0.0, 1.0, -3.0]), st.sampled_from([0.0, 2.0])).map(list),
        'lagged': st.booleans(),
        't': st.sampled_from([1, 2, 3, -1]),
        'entry': st.sampled_from(['solve_t', 'solve']),
        'opts': st.fixed_dictionaries({
            'min_iter': st.integers(0, 3), 'max_iter': st.sampled_from([0, 1, 2, 3, 8, 30, 60, 100]),
            'tol': st.sampled_from([1e-6, 0.5, 2.0 ** -10, 1e-10, 1e-3]), 'failures': st.sampled_from(['raise', 'ignore']),
        }, optional={'offset': st.sampled_from([0, -1, 1, -1, 2])}),
        'rep': tapes(),
    })


def phases(tier):
    quick = tier == 'quick'
    return [
        Phase('lattice-and-selections', check_case, gen=with_rep(gen_lattice(2 if quick else 3)), exhaustive=True),
        Phase('linker-solve-ranges', check_ranges, gen=gen_ranges(), exhaustive=True),
        Phase('single-model-linker', check_single, strategy=strat_single, examples=1500 if quick else 100000),
    ]
