"""C17 - tracing never changes a solution and records it faithfully."""
import numpy as np

from .. import env  # noqa: F401
from ..core import Phase, Result
from .. import scripted, snapshot
from .. import solvecheck as SC
from ..represent import Rep
from ..util import attempt, same_value

import fsic
from fsic.extensions import TracerMixin

ID = 'C17'
TITLE = 'Tracing never changes a solution and records it faithfully'
LEVEL = 'exploration'
DESIGN_REF = 'DESIGN.md section 5, C17'
RULE = (
    'tracer-extended scripted models (per-pass outcome scripts incl. moves, non-finite values, warnings, exceptions, '
    'hook exceptions, offsets, passes that replace a series through a whole-list assignment) driven by histories of 1-3 '
    'calls (solve / solve_period / solve_t, repeated solves of the same period with the same or different trace arguments, '
    'optionally preceded by whole-series assignments (setattr / setitem / replace_values, list or ndarray) or by replacing '
    'the model with its copy()/copy.copy/copy.deepcopy) x trace in {None, False, True, list, tuple, single name} x '
    'the option lattice; an untraced twin receives the same calls without trace. Oracle: differential (values, statuses, '
    'iterations, return values, exception types, call logs identical after every call); trace falsy => every Trace '
    'empty; the labels appended by each call are start, before, 0, 1..k[, end] as reconstructed from the untraced twin '
    '(end iff the post-hook ran, k = passes completed), snapshot j = the traced variables after pass j as recorded on '
    'the twin, last snapshot = stored solution, trace names = requested names in order. Non-trivial: the run takes '
    '>= 2 passes, or ends on an error / non-convergence path, or is a repeated solve. Distinct = distinct case JSON.'
)
ASSUMPTIONS = ['repeated solves append to an existing trace (reset=False); each call is judged on the suffix it wrote',
               're-tracing a period with a different name list is a known finding (S21) and excluded by construction']
TECHNIQUE = 'differential testing of traced vs untraced twin scripted models over generated call histories; trace content reconstructed from the twin'
LEVEL_TEXT = ('Generated call histories are applied to a traced model and an untraced twin; every observable is compared after '
              'every call and the trace content is checked against per-pass values recorded on the twin.')
LEVEL_NOTE = ('Trusted: scripted model wrapper (records per-pass values). reset=True is only compared differentially (the statement '
              'describes the trace content for reset=False); TRACE_VARIABLES class defaults are generated.')

# a name of more than one character too (a str is a sequence of characters), and one that is also the name of a property of
# the model class (`size`): for a script it is a variable like any other
VARS = ['A', 'B', 'X', 'Yd', 'size']


def make(case):
    # the scripted hooks sit *below* the tracer in the MRO, so a raising hook raises inside the tracer's super() call
    base = scripted.make_class(['A', 'B'], exogenous=('X', 'Yd', 'size'), bases=(fsic.BaseModel,))
    attrs = {}
    if case.get('trace_name'):
        attrs['TRACE_NAME'] = case['trace_name']      # the model may need the name `trace` for a variable of its own
    if case.get('trace_variables') is not None:
        attrs['TRACE_VARIABLES'] = list(case['trace_variables'])     # class-level default for trace=True
    cls = type('Traced', (TracerMixin, base), attrs)
    n = case.get('n', 3)
    m = cls(range(n), A=np.array([1.0 + i for i in range(n)]), B=np.array([10.0 * (i + 1) for i in range(n)]),
            X=np.array([0.5 * i for i in range(n)]), Yd=np.array([7.0 - i for i in range(n)]),
            size=np.array([100.0 + i for i in range(n)]))
    scripted.arm(m, case.get('script'), case.get('hooks'))
    m.__dict__['_calls'] = []
    return wire(m)


def stored(model, name):
    """The series as the object stores it (observations do not go through the item interface, which the tracer itself uses)."""
    return model.__dict__['_' + name]


def wire(m):
    def solve_t(t, *args, _m=m, **kwargs):
        _m.__dict__['_calls'].append(t + len(_m.span) if t < 0 else t)
        return type(_m).solve_t(_m, t, *args, **kwargs)
    m.__dict__['solve_t'] = solve_t
    return m


def apply_pre(model, op):
    """Between-call mutations through the public API; the same operation is applied to the traced model and its twin."""
    import copy as _copy
    kind = op[0]
    if kind == 'copy':
        route = op[1]
        new = model.copy() if route == 'copy' else (_copy.copy(model) if route == 'copy.copy' else _copy.deepcopy(model))
        return wire(new)           # the recording wrapper is per instance: re-attach it to the copy
    _, name, route, delta = op
    new = [float(v) + delta for v in stored(model, name)]
    if route == 'setattr':
        setattr(model, name, new)          # a Sequence operand replaces the stored array object
    elif route == 'setitem':
        model[name] = new
    elif route == 'replace_values':
        model.replace_values(**{name: new})
    elif route == 'ndarray':
        setattr(model, name, np.array(new))
    return model


def names_for(trace, model):
    if trace is True:
        if type(model).TRACE_VARIABLES is not None:
            return list(type(model).TRACE_VARIABLES)
        return list(model.names)
    if isinstance(trace, str):
        return [trace]
    return list(trace)


def call(model, c, with_trace):
    kw = dict(c.get('opts') or {})
    if with_trace:
        kw = Rep(c.get('rep')).opts(kw)      # the traced call gets the same option values in other representations
    if with_trace and 'trace' in c:
        tr = c['trace']
        if isinstance(tr, dict) and 'tuple' in tr:
            tr = tuple(tr['tuple'])
        kw['trace'] = tr
        if c.get('reset'):
            kw['reset'] = True         # only meaningful together with trace; the untraced twin never sees it
    entry = c.get('entry', 'solve_t')
    if entry == 'solve':
        return attempt(model.solve, **kw)
    if entry == 'solve_period':
        return attempt(model.solve_period, list(model.span)[c['t']], **kw)
    return attempt(model.solve_t, c['t'], **kw)


def trace_state(model):
    # (emptiness is judged from the stored array itself, not through Trace.is_empty(): that method is code under test)
    out = []
    for tr in model[type(model).TRACE_NAME]:
        vals = np.asarray(tr.values, dtype=float)
        out.append((list(tr.names), list(tr.index), None if vals.size == 0 else vals))
    return out


def trace_fingerprint(model):
    # (values as text: a NaN snapshot must compare equal to itself)
    return [(list(n_), [str(x) for x in i_], None if v_ is None else repr(v_.tolist())) for n_, i_, v_ in trace_state(model)]


def check_case(case):
    left_behind = []
    T_, U_ = make(case), make(case)
    n = case.get('n', 3)
    res = Result(classes=['calls=%d' % len(case['calls'])])
    nontrivial = len(case['calls']) > 1
    for ci, c in enumerate(case['calls']):
        tr = c.get('trace')
        if isinstance(tr, dict):
            tr = tuple(tr['tuple'])
        for op in c.get('pre') or ():
            if op[0] == 'copy':
                left_behind.append((T_, trace_fingerprint(T_)))       # the original stays alive and must not hear of the copy's solves
            T_, U_ = apply_pre(T_, op), apply_pre(U_, op)
            nontrivial = True
        before_cells = [{nm: float(stored(U_, nm)[p]) for nm in VARS} for p in range(n)]
        before_trace = trace_state(T_)
        vals_mark = len(U_.__dict__['_vals'])
        calls_mark = len(U_.__dict__['_calls'])
        g = call(T_, c, True)
        w = call(U_, c, False)
        detail = f'call {ci} {c} of {case["calls"]} script={case.get("script")} hooks={case.get("hooks")}'
        cls = 'repeat' if ci else 'first'
        og, ow = SC.outcome_of(g), SC.outcome_of(w)
        if og[1] != ow[1] or (og[1] is None and repr(og[0]) != repr(ow[0])):
            changed = ''
            if tr:
                want_names = names_for(tr, T_)
                if any(b[1] and list(b[0]) != want_names for b in before_trace):
                    changed = '/name-list-changed'
            res.fail(f'differential/{cls}/outcome{changed}', f'{detail}: traced {g!r}, untraced {w!r}')
            return res
        for nm in VARS + ['status', 'iterations']:
            a, b = np.asarray(stored(T_, nm)), np.asarray(stored(U_, nm))
            if not all(same_value(x, y) for x, y in zip(a.tolist(), b.tolist())):
                res.fail(f'differential/{cls}/{"values" if nm in VARS else nm}', f'{detail}: {nm} traced {a.tolist()}, untraced {b.tolist()}')
                return res
        if T_.__dict__['_log'] != U_.__dict__['_log']:
            res.fail(f'differential/{cls}/call-log', f'{detail}: traced log {T_.__dict__["_log"][-6:]}, untraced {U_.__dict__["_log"][-6:]}')
            return res
        its = [int(x) for x in U_.iterations]
        if max(its) >= 2 or ow[1] is not None or any(s in 'FES' for s in map(str, U_.status)):
            nontrivial = True
        after_trace = trace_state(T_)
        for obj_, fp in left_behind:
            if trace_fingerprint(obj_) != fp:
                res.fail('copy/trace-of-the-original-changed', f'{detail}: a traced solve of the copy changed the traces of the model it was copied from')
                return res
        res.tag('trace:' + type(tr).__name__)
        if not tr:
            if any(a[1] != b[1] for a, b in zip(before_trace, after_trace)):
                res.fail('trace-off/trace-written', f'{detail}: tracing was off but a Trace changed: {[a[1] for a in after_trace]}')
            continue
        if c.get('reset'):
            res.tag('reset=True')      # the statement describes the trace content for the default reset=False only
            continue
        names = names_for(tr, T_)
        # periods visited by this call = solve_t invocations recorded on the untraced twin
        events = U_.__dict__['_vals'][vals_mark:]
        visited = U_.__dict__['_calls'][calls_mark:]
        for p in range(n):
            b_names, b_index, b_vals = before_trace[p]
            a_names, a_index, a_vals = after_trace[p]
            exp_labels, rows = [], []
            if p in visited:
                exp_labels.append('start')
                rows.append(before_cells[p])
                hooks = case.get('hooks') or {}
                for kind, _, k, cells in [e for e in events if e[1] == p]:
                    if kind == 'before':
                        # 'before' is recorded ahead of the pre-solution hook, 0 after it returned
                        exp_labels.append('before')
                        rows.append(cells)
                        if not hooks.get('before'):
                            exp_labels.append(0)
                            rows.append(cells)
                    elif kind == 'pass':
                        exp_labels.append(k)
                        rows.append(cells)
                    elif kind == 'after' and not hooks.get('after'):
                        # an unsolved period's trace stops after its last pass: no 'end' if the post-solution hook raised
                        exp_labels.append('end')
                        rows.append(cells)
            new_labels = a_index[len(b_index):]
            if a_index[:len(b_index)] != b_index:
                res.fail(f'trace-content/{cls}/earlier-record-changed', f'{detail}: period {p}: trace was {b_index}, now {a_index}')
                continue
            if new_labels != exp_labels:
                res.fail(f'trace-content/{cls}/labels', f'{detail}: period {p}: call appended labels {new_labels}, expected {exp_labels}')
                continue
            if not exp_labels:
                continue
            if list(a_names) != names:
                changed = '/name-list-changed' if (b_index and list(b_names) != names) else ''
                res.fail(f'trace-content/{cls}/names{changed}', f'{detail}: period {p}: trace names {a_names}, requested {names}')
                continue
            if a_vals is None or a_vals.ndim != 2 or a_vals.shape != (len(names), len(a_index)):
                res.fail(f'trace-content/{cls}/values-shape', f'{detail}: period {p}: labels {a_index} for {names} but the stored '
                         f'values have shape {None if a_vals is None else a_vals.shape}')
                continue
            got_vals = a_vals[:, len(b_index):]
            for j, (lab, cells) in enumerate(zip(exp_labels, rows)):
                want_col = [cells[nm] for nm in names]
                col = got_vals[:, j].tolist()
                if not all(same_value(x, y) for x, y in zip(col, want_col)):
                    res.fail(f'trace-content/{cls}/snapshot-values', f'{detail}: period {p}: snapshot {lab!r} holds {col}, '
                             f'the variables {names} were {want_col}')
                    break
            if exp_labels[-1] == 'end' and ow[1] is None:
                final = [float(stored(T_, nm)[p]) for nm in names]
                if not all(same_value(x, y) for x, y in zip(got_vals[:, -1].tolist(), final)):
                    res.fail(f'trace-content/{cls}/final-snapshot', f'{detail}: period {p}: last snapshot {got_vals[:, -1].tolist()} != stored solution {final}')
    res.nontrivial = nontrivial
    return res


def strategy():
    from hypothesis import strategies as st
    n = 3
    tok = st.sampled_from(['same', ['move', 1.0], ['move', 0.25], ['move', 0.125], ['set', 'nan'], ['set', 'inf'], 'warn',
                           ['raise', 'ZeroDivisionError'], ['set', 2.0], ['move', 1.0], ['move', 0.25], ['rebind', 1.0]])
    pre = st.lists(st.one_of(
        st.tuples(st.just('copy'), st.sampled_from(['copy', 'copy.copy', 'copy.deepcopy'])).map(list),
        st.tuples(st.just('assign'), st.sampled_from(VARS), st.sampled_from(['setattr', 'setitem', 'replace_values', 'ndarray']),
                  st.sampled_from([1.0, -2.5, 0.0])).map(list)), max_size=2)
    passes = st.dictionaries(st.tuples(st.integers(0, n - 1), st.integers(1, 4)).map(lambda x: f'{x[0]}:{x[1]}'),
                             st.lists(st.tuples(st.sampled_from(['A', 'B']), tok).map(list), min_size=1, max_size=2, unique_by=lambda x: x[0]),
                             max_size=6)
    opts = st.fixed_dictionaries({}, optional={
        'min_iter': st.integers(0, 3), 'max_iter': st.sampled_from([0, 1, 2, 3, 5]), 'tol': st.sampled_from([0.5, 0.2, 1e-10]),
        'failures': st.sampled_from(['raise', 'ignore']), 'errors': st.sampled_from(['raise', 'skip', 'ignore', 'replace']),
        'catch_first_error': st.booleans(), 'offset': st.sampled_from([0, -1, 1]),
    })

    @st.composite
    def cases(draw):
        ncalls = draw(st.integers(1, 3))
        # one trace name list per case (S21: changing the name list between solves of a period is a known finding)
        trace = draw(st.sampled_from([True, ['A'], ['B', 'A'], 'B', {'tuple': ['A', 'X']}, ['X', 'B', 'A'], 'Yd', ['Yd', 'A'], 'size', ['size', 'A']]))
        calls = []
        for _ in range(ncalls):
            c = {'entry': draw(st.sampled_from(['solve_t', 'solve_t', 'solve_period', 'solve'])),
                 't': draw(st.sampled_from([0, 1, 2, -1, 1])), 'opts': draw(opts)}
            tr = draw(st.sampled_from(['on', 'on', 'on', None, False, 'absent']))
            if tr == 'on':
                c['trace'] = trace
            elif tr != 'absent':
                c['trace'] = tr
            if c['entry'] == 'solve_period' and c['t'] < 0:
                c['t'] = n + c['t']
            if draw(st.integers(0, 3)) == 0:
                c['pre'] = draw(pre)
            if tr == 'on' and draw(st.integers(0, 7)) == 0:
                c['reset'] = True
            if draw(st.integers(0, 2)) == 0:
                c['rep'] = draw(st.lists(st.integers(0, 11), min_size=1, max_size=4))
            calls.append(c)
        hooks = draw(st.sampled_from([None, None, None, {'before': 'KeyError'}, {'after': 'ValueError'}, {'after': 'ZeroDivisionError'}]))
        case = {'n': n, 'script': draw(passes), 'hooks': hooks, 'calls': calls,
                'trace_name': draw(st.sampled_from([None, None, 'history', 'tr_']))}
        if trace is True and draw(st.booleans()):
            case['trace_variables'] = draw(st.sampled_from([['B'], ['X', 'A'], ['A', 'B', 'X'], ['B', 'A']]))
        return case
    return cases()


def gen_basic():
    """A fixed family: one variable moving for j passes, every entry point, every trace spelling, solved twice."""
    def gen():
        for moves in range(0, 4):
            script = {f'1:{k + 1}': [['A', ['move', 1.0]]] for k in range(moves)}
            for trace in (True, ['A'], 'B', 'Yd', {'tuple': ['A', 'X']}, None, False, ['size', 'A']):
                for entry in ('solve_t', 'solve_period', 'solve'):
                    for max_iter in (moves, moves + 1, moves + 2):
                        for failures in ('raise', 'ignore'):
                            c = {'entry': entry, 't': 1, 'trace': trace,
                                 'opts': {'max_iter': max_iter, 'tol': 0.5, 'failures': failures}}
                            yield {'n': 3, 'script': script, 'calls': [c]}
                            if max_iter == moves + 1:
                                yield {'n': 3, 'script': script, 'calls': [c, c], 'trace_name': 'history'}
                            if failures == 'ignore' and entry != 'solve_period':
                                yield {'n': 3, 'script': script, 'hooks': {'after': 'KeyError'}, 'calls': [c]}
                                yield {'n': 3, 'script': script, 'hooks': {'before': 'ValueError'}, 'calls': [c]}
                            yield {'n': 3, 'script': script, 'calls': [c, c]}
                            yield {'n': 3, 'script': script, 'calls': [c, dict(c, entry='solve_t'), c]}
                            if trace is True:
                                yield {'n': 3, 'script': script, 'calls': [c, c], 'trace_variables': ['B', 'A']}
                                yield {'n': 3, 'script': script, 'calls': [c, dict(c, reset=True)], 'trace_variables': ['X']}
                            if max_iter == moves + 1 and failures == 'raise':
                                for pre in (['copy', 'copy'], ['copy', 'copy.deepcopy'], ['assign', 'A', 'setattr', 1.0],
                                            ['assign', 'X', 'replace_values', -2.5], ['assign', 'B', 'setitem', 1.0]):
                                    yield {'n': 3, 'script': script, 'calls': [c, dict(c, pre=[pre])]}
    return gen


def gen_long_traces():
    def gen():
        for moves in (130, 260):
            script = {f'1:{k + 1}': [['A', ['move', 1.0]], ['B', ['move', 0.5 + k]]] for k in range(moves)}
            for trace in (True, ['B', 'A'], 'B'):
                c = {'entry': 'solve_t', 't': 1, 'trace': trace, 'opts': {'max_iter': moves + 5, 'tol': 0.25, 'failures': 'ignore'}}
                yield {'n': 3, 'script': script, 'calls': [c]}
        # many repeated traced solves of one period
        script = {f'1:{k + 1}': [['A', ['move', 1.0]], ['B', ['move', 2.0]]] for k in range(3)}
        c = {'entry': 'solve_t', 't': 1, 'trace': ['A', 'B'], 'opts': {'max_iter': 5, 'tol': 0.25, 'failures': 'ignore'}}
        yield {'n': 3, 'script': script, 'calls': [c] * 30}
    return gen


def gen_name_list_change():
    def gen():
        for first, second in ((True, ['A']), (['A', 'B'], ['A']), (['A'], ['A', 'B']), ('A', 'B'), (['A', 'B'], ['B', 'A'])):
            for entry in ('solve_t', 'solve'):
                c1 = {'entry': entry, 't': 1, 'trace': first, 'opts': {'max_iter': 2, 'tol': 0.5, 'failures': 'ignore'}}
                yield {'n': 3, 'script': {}, 'calls': [c1, dict(c1, trace=second)]}
    return gen


def phases(tier):
    quick = tier == 'quick'
    return [
        Phase('name-list-change', check_case, gen=gen_name_list_change(), exhaustive=True),
        Phase('long-traces', check_case, gen=gen_long_traces(), shards=7),
        Phase('basic-family', check_case, gen=gen_basic(), exhaustive=True),
        Phase('histories', check_case, strategy=strategy, examples=8000 if quick else 200000),
    ]
