"""C14 - layout of the script does not matter; the normal form is a fixed point."""
import ast
import re

from .. import env  # noqa: F401
from ..core import Phase, Result
from .. import grammar as G
from ..util import attempt

import fsic
from fsic.parser import Type

ID = 'C14'
TITLE = 'Layout of the script does not matter; the normal form is a fixed point'
LEVEL = 'exploration'
DESIGN_REF = 'DESIGN.md section 5, C14; 2.8(6)'
RULE = (
    'metamorphic: each program of grammar G is rendered canonically and under layout tapes (every decision point of '
    'the renderer - comment lines incl. comments with #, quotes and unbalanced brackets, blank / whitespace-only '
    'lines, spaces and tabs around operators, inside () {} <> [], between a name and its [index], between a function '
    'name and its (, after a unary sign, explicit [0], whole right-hand side in parentheses, line breaks after or '
    'before operators inside parentheses with and without trailing comments): single decisions at every decision '
    'point of a fixed program list (exhaustive per program) and Hypothesis-drawn compositions; plus statement '
    'permutations, statement-at-a-time parsing, and the normal-form fixed point. Oracle: symbol tuples (name, type, '
    'lags, leads) equal in order and ast.dump(ast.parse(code)) equal per symbol; a rejection of the transformed '
    'script is a violation. Non-trivial: transformed text differs from the canonical text by more than trailing '
    'whitespace. Distinct = distinct (program, mode, tape/permutation).'
)
ASSUMPTIONS = ['the left-hand side is written without inner whitespace; whitespace between sign and digits of an index '
               'and leading indentation are outside the catalogue (parser documents its own errors for them)',
               'a failing multi-decision layout is attributed to the decision kinds that fail on their own']
TECHNIQUE = 'metamorphic testing over a layout catalogue: exhaustive single transformations + Hypothesis compositions'
LEVEL_TEXT = ('Metamorphic relation between canonical and transformed renderings of generated programs, exhaustive over '
              'single layout decisions for a fixed program list and randomised over compositions; plus permutation, '
              'statement-at-a-time and fixed-point relations.')
LEVEL_NOTE = 'Trusted: the renderer (self-checked) and CPython ast. Not covered: layouts outside the catalogue.'

PROGRAM_LIST = [
    [['assign', ['var', 'C', 'v', None], ['bin', '+', ['bin', '*', ['var', 'alpha_1', 'p', None], ['var', 'YD', 'v', None]],
                                           ['bin', '*', ['var', 'alpha_2', 'p', None], ['var', 'H', 'v', -1]]]]],
    [['assign', ['var', 'Y', 'v', None], ['bin', '+', ['var', 'X', 'v', 1], ['var', 'u', 'e', -12]]],
     ['assign', ['var', 'X', 'v', None], ['call', 'max', [['var', 'Y', 'v', -1], ['un', '-', ['num', '2.']]]]]],
    [['assign', ['var', 'Y', 'v', 0], ['if', ['var', 'X', 'v', None], ['cmp', '>=', ['var', 'Z', 'v', -2], ['num', '0']],
                                       ['un', '-', ['var', 'X', 'v', ['+', 1]]]]]],
    [['assign', ['var', 'is_open', 'v', None], ['bool', 'and', ['un', 'not', ['var', 'Pin', 'v', None]],
                                                ['cmp', '==', ['var', 'k', 'p', -1], ['verb', 'np.pi']]]],
     ['block', 'pass'],
     ['assign', ['var', 'W', 'v', None], ['call', 'np.sqrt', [['paren', ['bin', '**', ['var', 'is_open', 'v', None], ['num', '2']]]]]]],
    [['assign', ['var', 'Y', 'v', None], ['bin', '-', ['un', '-', ['call', 'exp', [['var', 'X', 'v', None]]]],
                                          ['bin', '/', ['var', 'Y', 'v', -1], ['var', 'a', 'p', None]]]]],
]


def selfcheck():
    G.selfcheck()


def sig(symbols):
    out = []
    for s in symbols:
        code = s.code
        if code is not None:
            try:
                code = G.dump(G.parse_code(code))
            except SyntaxError:
                code = 'unparsable:' + code
        out.append((s.name, s.type.name, s.lags, s.leads, code))
    return out


def compare(base, other):
    """-> None | short description of the first difference."""
    if len(base) != len(other):
        return 'symbol-count'
    for a, b in zip(base, other):
        if a[:2] != b[:2]:
            return 'names-or-types'
        if a[2:4] != b[2:4]:
            return 'lags-leads'
        if a[4] != b[4]:
            return 'code'
    return None


def layout_outcome(prog, tape):
    """-> (effect or None, detail, text)."""
    canon, _ = G.render_program(prog, [])
    text, tp = G.render_program(prog, tape)
    base = attempt(fsic.parse_model, canon)
    if not base.ok:
        return ('canonical-rejected-' + base.exc_name, f'{canon!r}: {base!r}', text, tp)
    got = attempt(fsic.parse_model, text)
    if not got.ok:
        return ('rejected-' + got.exc_name, f'canonical {canon!r} parses, {text!r} raised {got.exc_name}: {got.exc}', text, tp)
    d = compare(sig(base.value), sig(got.value))
    if d:
        return ('differs-' + d, f'canonical {canon!r} -> {sig(base.value)}; transformed {text!r} -> {sig(got.value)}', text, tp)
    return (None, '', text, tp)


def check_layout(case):
    prog = case['prog']
    tape = list(case.get('tape') or [])
    effect, detail, text, tp = layout_outcome(prog, tape)
    canon, _ = G.render_program(prog, [])
    kinds_used = sorted({k for k, n, v in tp.points if v})
    res = Result(nontrivial=text.rstrip() != canon.rstrip(), classes=['layout'] + ['layout:' + k for k in kinds_used])
    if effect is None:
        return res
    if effect.startswith('canonical-rejected'):
        res.fail('layout/' + effect, detail)
        return res
    # attribute the failure to the decision kinds that fail on their own
    nz = [i for i, (k, n, v) in enumerate(tp.points) if v]
    padded = tape + [0] * max(0, len(tp.points) - len(tape))
    blamed = []
    for i in nz:
        single = [0] * len(padded)
        single[i] = padded[i]
        e1, _, _, _ = layout_outcome(prog, single)
        if e1 is not None:
            blamed.append(tp.points[i][0])
    if not blamed:
        blamed = ['combination:' + '+'.join(kinds_used)]
    res.fail(f'layout/{effect}/{"+".join(sorted(set(blamed)))}', detail)
    return res


def check_permutation(case):
    prog = case['prog']
    perm = case['perm']
    res = Result(nontrivial=perm != sorted(perm) and len(prog) > 1, classes=['permutation'])
    if sorted(perm) != list(range(len(prog))):
        return res
    canon, _ = G.render_program(prog, [])
    other, _ = G.render_program([prog[i] for i in perm], [])
    a = attempt(fsic.parse_model, canon)
    b = attempt(fsic.parse_model, other)
    if a.ok != b.ok or (not a.ok and a.exc_name != b.exc_name):
        res.fail('permutation/acceptance-differs', f'{canon!r}: {a!r}; {other!r}: {b!r}')
        return res
    if not a.ok:
        return res
    sa, sb = sig(a.value), sig(b.value)
    if sorted(map(repr, sa)) != sorted(map(repr, sb)):
        res.fail('permutation/symbols-differ', f'{canon!r} -> {sa}; {other!r} -> {sb}')
    return res


_VARTYPES = ('VARIABLE', 'EXOGENOUS', 'ENDOGENOUS')


def merge(per_statement):
    """Merge of per-statement symbol signatures, written from the statement of C03/C14 (not from Symbol.combine)."""
    table, verbatim = {}, []
    for symbols in per_statement:
        for name, typ, lags, leads, code in symbols:
            if name is None:
                verbatim.append((name, typ, lags, leads, code))
                continue
            if name not in table:
                table[name] = [name, typ, lags, leads, code]
                if lags is not None:
                    table[name][2] = min(lags, 0)
                    table[name][3] = max(leads, 0)
                continue
            cur = table[name]
            if cur[1] != typ:
                if cur[1] in _VARTYPES and typ in _VARTYPES:
                    cur[1] = 'ENDOGENOUS' if 'ENDOGENOUS' in (cur[1], typ) else cur[1]
                else:
                    raise ValueError('clash')
            if lags is not None:
                cur[2] = min(cur[2], lags, 0)
                cur[3] = max(cur[3], leads, 0)
            if code is not None:
                if cur[4] is not None and cur[4] != code:
                    raise ValueError('double definition')
                cur[4] = code
    return [tuple(v) for v in table.values()] + verbatim


def check_statementwise(case):
    prog = case['prog']
    res = Result(nontrivial=len(prog) > 1, classes=['statement-at-a-time'])
    canon, _ = G.render_program(prog, [])
    texts = [G.render_program([s], [])[0] for s in prog]
    restate = case.get('restate')
    assigns = [i for i, s in enumerate(prog) if s[0] == 'assign']
    if restate is not None and assigns:
        # one equation is stated a second time, in another layout (restricted to layout kinds that never reach the
        # normalised text: comments, padding inside brackets / braces / angle brackets, an explicit [0], line breaks and
        # padding inside parentheses). Identical restatements are one definition.
        i = assigns[restate[0] % len(assigns)]
        again = G.render_program([prog[i]], G.Tape(restate[1], kinds={'index-pad', 'explicit0', 'brace-pad', 'angle-pad', 'comment',
                                                                       'paren-pad', 'wrap-rhs'}))[0]
        a1, a2 = attempt(fsic.parse_model, texts[i]), attempt(fsic.parse_model, again)
        same_text = a1.ok and a2.ok and [(x.name, x.equation, x.code) for x in a1.value] == [(x.name, x.equation, x.code) for x in a2.value]
        if same_text:
            res.tag('restated-equation')
            res.nontrivial = True
            canon = canon + '\n' + again + '\n'
            texts.append(again)
        else:
            res.tag('restated-equation:normal-form-differs(skipped)')
    whole = attempt(fsic.parse_model, canon)
    parts = [attempt(fsic.parse_model, t_) for t_ in texts]
    if not all(p.ok for p in parts):
        if whole.ok:
            res.fail('statementwise/part-rejected', f'{canon!r} parses but a single statement does not: '
                     f'{[repr(p) for p in parts if not p.ok]}')
        return res
    try:
        want = merge([sig(p.value) for p in parts])
    except ValueError:
        if whole.ok:
            res.fail('statementwise/whole-accepted-despite-clash', f'{canon!r}: {whole!r}')
        return res
    if not whole.ok:
        res.fail(f'statementwise/whole-rejected-{whole.exc_name}', f'{canon!r}: {whole!r}')
        return res
    if sig(whole.value) != want:
        res.fail('statementwise/merge-differs', f'{canon!r}: parse_model gives {sig(whole.value)}, merge of statements {want}')
    return res


def to_offsets(equation):
    """[t] -> [0], [t-k] -> [-k], [t+k] -> [+k]."""
    return re.sub(r'\[t([+-]\d+)?\]', lambda m: '[' + (m.group(1) or '0') + ']', equation)


def check_fixed_point(case):
    prog = case['prog']
    feats = G.program_features(prog)
    res = Result(nontrivial=G.nontrivial(feats), classes=['fixed-point'])
    text, _ = G.render_program(prog, case.get('tape') or [])
    parsed = attempt(fsic.parse_model, text)
    if not parsed.ok:
        return res   # acceptance is judged by the layout phases
    for s in parsed.value:
        if s.equation is None or s.type != Type.ENDOGENOUS:
            continue
        if re.search(r'\[`|\[[^\]]*`[^\]]*\]', s.equation) or 'named-period' in feats and re.search(r"\[[^\]t][^\]]*\]", s.equation):
            # backticked period indexes lose their backticks in the normal form: excluded by the statement
            if '`' not in s.equation or re.search(r'\[[^\]]*[^\]t0-9+\-][^\]]*\]', s.equation.replace("'", '').replace('"', '')) is None:
                pass
        again = attempt(fsic.parse_model, to_offsets(s.equation))
        if not again.ok:
            res.fail(f'fixed-point/rejected-{again.exc_name}', f'{text!r}: normal form {s.equation!r} re-parse: {again!r}')
            continue
        twin = [x for x in again.value if x.name == s.name]
        if not twin or twin[0].equation != s.equation or twin[0].code != s.code:
            res.fail('fixed-point/differs', f'{text!r}: {s.equation!r} / {s.code!r} re-parses to '
                     f'{twin[0].equation if twin else None!r} / {twin[0].code if twin else None!r}')
    return res


def gen_single_decisions(progs):
    def gen():
        for prog in progs:
            _, tp = G.render_program(prog, [])
            for i, (kind, n, _) in enumerate(tp.points):
                for v in range(1, max(n, 2)):
                    yield {'prog': prog, 'tape': [0] * i + [v]}
    return gen


def _small_programs(max_nodes):
    out = list(PROGRAM_LIST)
    for i, p in enumerate(G.enumerate_programs(max_nodes)):
        if i % 7 == 0:
            out.append(p)
    return out


def strat_layout():
    from hypothesis import strategies as st
    return st.fixed_dictionaries({'prog': G.programs(max_statements=3, blocks=True, named_periods=True, big_offsets=True),
                                  'tape': G.tapes(60)})


def strat_perm():
    from hypothesis import strategies as st
    return G.programs(max_statements=4, blocks=True).flatmap(
        lambda p: st.permutations(list(range(len(p)))).map(lambda perm: {'prog': p, 'perm': list(perm)}))


def strat_prog_only():
    from hypothesis import strategies as st
    return st.fixed_dictionaries({'prog': G.programs(max_statements=4, blocks=True, named_periods=False)},
                                 optional={'restate': st.tuples(st.integers(0, 3), G.tapes(12)).map(list)})


def strat_fixed_point():
    from hypothesis import strategies as st
    return st.fixed_dictionaries({'prog': G.programs(max_statements=3, named_periods=False, lhs_offsets=True),
                                  'tape': G.tapes(30)})


def phases(tier):
    quick = tier == 'quick'
    return [
        Phase('single-decisions', check_layout, gen=gen_single_decisions(_small_programs(3 if quick else 4)), exhaustive=True),
        Phase('layout-compositions', check_layout, strategy=strat_layout, examples=2500 if quick else 60000),
        Phase('permutations', check_permutation, strategy=strat_perm, examples=600 if quick else 10000),
        Phase('statement-at-a-time', check_statementwise, strategy=strat_prog_only, examples=600 if quick else 10000),
        Phase('fixed-point', check_fixed_point, strategy=strat_fixed_point, examples=800 if quick else 15000),
    ]
