"""C11 - copies and sibling instances share no mutable state."""
import copy

import numpy as np

from .. import env  # noqa: F401
from ..core import Phase, Result
from .. import containerops as CO
from .. import snapshot, spans
from ..util import attempt

import fsic
from fsic.core import VectorContainer
from fsic.extensions import AliasMixin, TracerMixin

ID = 'C11'
TITLE = 'Copies and sibling instances share no mutable state'
LEVEL = 'exploration'
DESIGN_REF = 'DESIGN.md section 5, C11; 4.8'
RULE = (
    'objects {VectorContainer, BaseModel subclass, BaseLinker with two submodels, Alias-, Tracer- and Alias+Tracer-extended '
    'models} after a generated history (C09 operation alphabet, optionally a traced solve) are copied by one of the three '
    'routes (copy(), copy.copy, copy.deepcopy); a second generated history (C09 operations, solve, list mutations of '
    'names/check/endogenous/index, lag/lead settings, in-place array writes, span list mutation, alias and trace '
    'mutation, operations on linker submodels) is applied to ONE side. Oracle: right after the copy the two snapshots '
    '(full __dict__, submodels, Trace objects, class-level lists) are equal and the classes identical; the untouched '
    "side's snapshot is identical before and after every mutation of the other side; an id-walk over both object graphs "
    'proposes shared mutable objects which are confirmed by mutating through one side. Sibling instances of one class '
    '(distinct equal spans) and the class itself are checked the same way. Non-trivial: the post-copy history mutates '
    'something other than variable values, or the pair is (sibling, sibling). Distinct = distinct case JSON.'
)
ASSUMPTIONS = ['two siblings are built from two distinct (equal) span objects: sharing a span object is the caller\'s doing']
TECHNIQUE = 'model-free invariant over generated two-phase histories: full-state snapshots of the untouched side + id-walk confirmed by mutation'
LEVEL_TEXT = ('Generated histories before and after each copy route; the untouched side (and the class) must keep an identical '
              'full-state snapshot after every single mutation of the other side.')
LEVEL_NOTE = 'Trusted: snapshot() covers every entry of __dict__ recursively plus class-level lists. Not covered: user subclasses with extra state outside __dict__.'

KINDS = ['container', 'model', 'linker', 'alias-model', 'tracer-model', 'alias-tracer-model']


class _Base(fsic.BaseModel):
    ENDOGENOUS = ['X', 'Z']
    EXOGENOUS = ['Y']
    PARAMETERS = []
    ERRORS = []
    NAMES = ENDOGENOUS + EXOGENOUS
    CHECK = ENDOGENOUS
    LAGS = 1
    LEADS = 0

    def _evaluate(self, t, **kwargs):
        self._X[t] = self._X[t - 1] * 0.5 + self._Y[t]
        self._Z[t] = self._X[t] + 1


def classes():
    """Fresh classes for every case (class-level state must not leak between cases)."""
    class M(_Base):
        ENDOGENOUS = ['X', 'Z']
        EXOGENOUS = ['Y']
        NAMES = ENDOGENOUS + EXOGENOUS
        CHECK = list(ENDOGENOUS)

    class AM(AliasMixin, M):
        ALIASES = {'GDP': 'X', 'out': 'GDP', 'inc': 'Y'}
        PREFERRED_NAMES = ['GDP']

    class TM(TracerMixin, M):
        pass

    class ATM(AliasMixin, TracerMixin, M):
        ALIASES = {'GDP': 'X', 'out': 'GDP'}
        PREFERRED_NAMES = []

    class Sub(fsic.BaseModel):
        ENDOGENOUS = ['A']
        EXOGENOUS = ['E']
        NAMES = ENDOGENOUS + EXOGENOUS
        CHECK = ENDOGENOUS

        def _evaluate(self, t, **kwargs):
            self._A[t] = self._E[t] + 1

    class L(fsic.BaseLinker):
        ENDOGENOUS = ['X']
        EXOGENOUS = ['Y']
        NAMES = ENDOGENOUS + EXOGENOUS
        CHECK = ENDOGENOUS
    return {'model': M, 'alias-model': AM, 'tracer-model': TM, 'alias-tracer-model': ATM, 'sub': Sub, 'linker': L}


def make(kind, span_desc, cls, inputs=None):
    """`inputs`: a dict that caches the caller-side input arrays, so that two objects can be built from the very same
    (writeable, already correctly typed) ndarray objects - the caller keeps them and may hand them to several instances."""
    span = spans.build(span_desc)
    n = len(span)

    def arr(key, make_):
        if inputs is None:
            return make_()
        if key not in inputs:
            inputs[key] = make_()
        return inputs[key]
    if kind == 'container':
        c = VectorContainer(span)
        c.add_variable('X', arr('X', lambda: np.arange(float(n))))
        c.add_variable('Y', arr('Y', lambda: np.arange(float(n)) * 0.5))
        c.add_variable('N', arr('N', lambda: np.arange(n)) if inputs is not None else list(range(n)), dtype=int)
        c.add_attribute('note', ['a'])
        return c
    if kind == 'linker':
        subs = {'a': cls['sub'](spans.build(span_desc), E=arr('E', lambda: np.arange(float(n)))), 'b': cls['sub'](spans.build(span_desc))}
        return cls['linker'](subs, X=arr('X', lambda: np.arange(float(n))))
    return cls[kind](span, X=arr('X', lambda: np.arange(float(n)) + 1), Y=arr('Y', lambda: np.arange(float(n)) * 0.5))


def mutate(obj, op, labels):
    """Apply a mutation op (C09 alphabet plus structure mutations). Outcome is irrelevant; exceptions are swallowed."""
    k = op[0]
    n = len(labels)
    if any(isinstance(part, list) and part[:1] == ['under'] for part in op[1:2]):
        return        # writing to a private `_name` slot is not a public operation (C09 applies it under strict only)
    if k == 'list-append':
        lst = obj.__dict__.get(op[1])
        if isinstance(lst, list):
            lst.append(op[2])
        return
    if k == 'list-pop':
        lst = obj.__dict__.get(op[1])
        if isinstance(lst, list) and lst:
            lst.pop()
        return
    if k == 'set-plain':
        attempt(setattr, obj, op[1], op[2])
        return
    if k == 'span-mutate':
        sp = obj.__dict__.get('span')
        if isinstance(sp, list) and sp:
            sp[0] = 'mutated'
        return
    if k == 'alias':
        al = obj.__dict__.get('aliases')
        if isinstance(al, dict):
            al[op[1]] = op[2]
        pn = obj.__dict__.get('preferred_names')
        if isinstance(pn, list):
            pn.append(op[1])
        return
    if k == 'trace':
        tr = obj.__dict__.get('_trace')
        if isinstance(tr, np.ndarray) and n:
            t = tr[op[1] % n]
            if type(t).__name__ != 'Trace':
                return
            attempt(t.append, 'x', np.arange(float(max(1, len(t.names)))))
            t.names = list(t.names) + ['more'] if op[2] else t.names
        return
    if k == 'solve':
        if not hasattr(type(obj), 'solve'):
            return           # plain containers have no solver
        kw = {'max_iter': 3, 'failures': 'ignore', 'errors': 'ignore'}
        if op[1] and '_trace' in obj.__dict__:
            kw['trace'] = True
        attempt(obj.solve, **kw)
        return
    if k == 'sub':
        subs = obj.__dict__.get('submodels')
        if subs:
            ids = list(subs)
            mutate(subs[ids[op[1] % len(ids)]], op[2], labels)
        return
    if k == 'sub-structure':
        subs = obj.__dict__.get('submodels')
        if isinstance(subs, dict) and subs:
            if op[1] == 'pop':
                subs.pop(list(subs)[-1])
            else:
                first = subs[list(subs)[0]]
                subs['new'] = first
        return
    CO.apply_op(obj, op, labels)


def walk_mutables(obj, seen=None, path='', depth=0):
    """id -> (path, object) for every mutable object reachable from obj.__dict__."""
    out = {} if seen is None else seen
    if depth > 5:
        return out
    items = obj.__dict__.items() if hasattr(obj, '__dict__') else []
    for k, v in items:
        _walk_value(v, f'{path}.{k}', out, depth)
    return out


def _walk_value(v, path, out, depth):
    if isinstance(v, np.ndarray):
        out[id(v)] = (path, v)
        if v.dtype.kind == 'O':
            for i, x in enumerate(v.ravel().tolist()):
                _walk_value(x, f'{path}[{i}]', out, depth + 1)
    elif isinstance(v, (list, set)):
        out[id(v)] = (path, v)
        for i, x in enumerate(list(v)[:50]):
            _walk_value(x, f'{path}[{i}]', out, depth + 1)
    elif isinstance(v, tuple):
        # (the tuple itself cannot change, what it holds can)
        for i, x in enumerate(v[:50]):
            _walk_value(x, f'{path}[{i}]', out, depth + 1)
    elif isinstance(v, dict):
        out[id(v)] = (path, v)
        for kk, x in list(v.items())[:50]:
            _walk_value(x, f'{path}[{kk!r}]', out, depth + 1)
    elif hasattr(v, '__dict__') and not isinstance(v, type) and not callable(v):
        out[id(v)] = (path, v)
        walk_mutables(v, out, path, depth + 1)


def shared_objects(a, b):
    wa, wb = walk_mutables(a), walk_mutables(b)
    shared = [(wa[i][0], wb[i][0]) for i in wa if i in wb]
    arrays_a = [(p, v) for p, v in wa.values() if isinstance(v, np.ndarray) and v.dtype.kind != 'O' and v.size]
    arrays_b = [(p, v) for p, v in wb.values() if isinstance(v, np.ndarray) and v.dtype.kind != 'O' and v.size]
    for pa, va in arrays_a:
        for pb, vb in arrays_b:
            if va is not vb and np.shares_memory(va, vb):
                shared.append((pa, pb))
    return shared


ROUTES = [lambda o: o.copy(), copy.copy, copy.deepcopy]
ROUTE_NAMES = ['copy()', 'copy.copy', 'copy.deepcopy']


def op_class(op):
    return op[0] if op[0] != 'sub' else 'sub:' + op[2][0]


def check_case(case):
    cls = classes()
    kind = case['kind']
    desc = case['span']
    labels = spans.labels(desc)
    res = Result(classes=['object:' + kind, 'mode:' + case['mode']])
    if case['mode'] == 'sibling':
        inputs = {} if case.get('shared_inputs') else None
        a = make(kind, desc, cls, inputs)
        b = make(kind, desc, cls, inputs)
        if inputs is not None:
            res.tag('sibling:same-input-arrays')
        sa, sb = snapshot.snapshot(a), snapshot.snapshot(b)
        if snapshot.diff(sa, sb):
            res.fail('sibling/fresh-instances-differ', f'{kind}: two fresh instances differ at {snapshot.diff(sa, sb)}')
            return res
        for p, q in shared_objects(a, b):
            res.fail(f'sibling/shared-object/{p.split("[")[0]}', f'{kind}: fresh siblings share {p} / {q}')
        res.nontrivial = True
        for i, op in enumerate(case['post']):
            before = snapshot.snapshot(b)
            mutate(a, op, labels)
            d = snapshot.first_diff_key(before, snapshot.snapshot(b))
            if d:
                res.fail(f'sibling/mutation-visible/{op_class(op)}/{d}', f'{kind} span {labels!r}: after {op} on one instance '
                         f'(history {case["post"][:i]}) the sibling / class changed at {d}')
                break
        return res

    obj = make(kind, desc, cls)
    for op in case.get('pre') or []:
        mutate(obj, op, labels)
    route = case['route']
    earlier = []
    for j in range(case.get('copies_before', 0)):
        # the object was copied before (and those copies went their own way): the copy under test is not the first one
        e = attempt(ROUTES[(route + j) % len(ROUTES)], obj)
        if e.ok:
            for op in (case.get('post') or [])[:2]:
                mutate(e.value, op, labels)
            earlier.append(e.value)
    if earlier:
        res.tag('copy:not-the-first-copy')
    out = attempt(ROUTES[route], obj)
    detail = f'{kind} span {labels!r} pre={case.get("pre")} route={ROUTE_NAMES[route]}'
    if not out.ok:
        res.fail(f'copy-raised/{ROUTE_NAMES[route]}/{out.exc_name}', f'{detail}: {out!r}')
        return res
    cp = out.value
    if type(cp) is not type(obj):
        res.fail(f'copy/class/{ROUTE_NAMES[route]}', f'{detail}: copy is {type(cp)}')
    s0, s1 = snapshot.snapshot(obj), snapshot.snapshot(cp)
    d = snapshot.first_diff_key(s0, s1)
    if d:
        res.fail(f'copy/not-equal/{d}', f'{detail}: copy differs from the original at {snapshot.diff(s0, s1)}')
        return res
    for p, q in shared_objects(obj, cp):
        res.fail(f'copy/shared-object/{p.split("[")[0].lstrip(".")}', f'{detail}: original and copy share {p} / {q}')
    for e in earlier:
        for p, q in shared_objects(e, cp):
            res.fail(f'copy/shared-with-earlier-copy/{p.split("[")[0].lstrip(".")}', f'{detail}: an earlier copy and this copy share {p} / {q}')
    mutated, other = (cp, obj) if case['side'] == 'copy' else (obj, cp)
    if case.get('values_both') and hasattr(obj, 'values'):
        # the caller hands one and the same array to both objects (the setter documents element-by-element replacement)
        try:
            shared = np.array(obj.values, dtype=obj.values.dtype) * 0 + 3
            ok1 = attempt(setattr, obj, 'values', shared)
            ok2 = attempt(setattr, cp, 'values', shared)
            if ok1.ok != ok2.ok:
                res.fail('copy/values-setter-outcome-differs', f'{detail}: original {ok1!r}, copy {ok2!r}')
        except Exception:  # noqa: BLE001  (object dtype arrays etc.: nothing to share)
            pass
    if case.get('add_both'):
        # the caller adds one and the same ndarray to both objects as a new variable
        nm, dt = case['add_both']
        n_ = len(labels)
        shared = np.arange(n_, dtype=float if dt != 'int' else int) + 2
        for target in [obj, cp] + (list(obj.__dict__.get('submodels', {}).values()) + list(cp.__dict__.get('submodels', {}).values())
                                   if kind == 'linker' else []):
            attempt(target.add_variable, nm, shared, **({} if dt == 'none' else {'dtype': float if dt == 'float' else int}))
        res.tag('copy:same-array-added-to-both')
    if case.get('set_both'):
        # the caller assigns one and the same sequence object to a variable of both objects
        import array as _array
        selidx, how = case['set_both']
        n_ = len(labels)
        shared = {'buffer': _array.array('d', [i + 0.5 for i in range(n_)]), 'ndarray': np.arange(n_, dtype=float) + 0.5,
                  'list': [i + 0.5 for i in range(n_)]}[how]
        name_ = CO.pick_name(obj, ['var', selidx])
        for target in (obj, cp):
            attempt(setattr, target, name_, shared)
        res.tag('copy:same-sequence-assigned-to-both:' + how)
    post = case.get('post') or []
    res.nontrivial = any(op[0] not in ('setattr', 'setitem', 'setlabel', 'setslice', 'inplace', 'values', 'replace_values') for op in post)
    for i, op in enumerate(post):
        before = snapshot.snapshot(other)
        mutate(mutated, op, labels)
        dd = snapshot.first_diff_key(before, snapshot.snapshot(other))
        if dd:
            res.fail(f'copy/mutation-visible/{op_class(op)}/{dd}', f'{detail}: after {op} on the {case["side"]} '
                     f'(post history {post[:i]}) the other side changed at {dd}')
            break
    return res


SPANS = [{'k': 'list', 'items': ['a', 'b', 'c', 'd']}, {'k': 'range', 'start': 2000, 'n': 4, 'step': 1},
         {'k': 'list', 'items': [1, 2, 3]}]


def post_ops(n, existing_only=False):
    from hypothesis import strategies as st
    base = CO.op_strategy(n, existing_only=existing_only)
    extra = st.one_of(
        st.tuples(st.just('list-append'), st.sampled_from(['names', 'check', 'endogenous', 'index', '_attributes', 'note', 'preferred_names']),
                  st.sampled_from(['X', 'Q'])).map(list),
        st.tuples(st.just('list-pop'), st.sampled_from(['names', 'check', 'endogenous', 'index'])).map(list),
        st.tuples(st.just('set-plain'), st.sampled_from(['lags', 'leads', 'engine', 'dtype']), st.sampled_from([0, 3, 'x'])).map(list),
        st.just(['span-mutate']),
        st.tuples(st.just('alias'), st.sampled_from(['GDP', 'w', 'out']), st.sampled_from(['Y', 'Z'])).map(list),
        st.tuples(st.just('trace'), st.integers(0, 3), st.booleans()).map(list),
        st.tuples(st.just('solve'), st.booleans()).map(list),
        st.tuples(st.just('sub'), st.integers(0, 1), st.one_of(CO.op_strategy(n, existing_only=True),
                                                               st.tuples(st.just('list-append'), st.sampled_from(['names', 'check', 'endogenous']),
                                                                         st.just('Q')).map(list),
                                                               st.just(['solve', False]))).map(list),
        st.tuples(st.just('sub-structure'), st.sampled_from(['pop', 'add'])).map(list),
    )
    return st.one_of(base, extra, extra)


def strategy(mode):
    from hypothesis import strategies as st

    def make_strategy():
        @st.composite
        def cases(draw):
            desc = draw(st.sampled_from(SPANS))
            n = len(spans.labels(desc))
            case = {'mode': mode, 'kind': draw(st.sampled_from(KINDS)), 'span': desc,
                    'post': draw(st.lists(post_ops(n), min_size=1, max_size=8))}
            if mode == 'copy':
                case['pre'] = draw(st.lists(post_ops(n), max_size=6))
                case['route'] = draw(st.integers(0, 2))
                case['side'] = draw(st.sampled_from(['copy', 'orig']))
                case['values_both'] = draw(st.sampled_from([False, False, True]))
                case['copies_before'] = draw(st.sampled_from([0, 0, 0, 1, 2]))
                if draw(st.integers(0, 4)) == 0:
                    case['set_both'] = [draw(st.integers(0, 2)), draw(st.sampled_from(['buffer', 'ndarray', 'list']))]
                if draw(st.integers(0, 3)) == 0:
                    case['add_both'] = [draw(st.sampled_from(['Q', 'W', 'new'])), draw(st.sampled_from(['float', 'int', 'none']))]
            else:
                case['shared_inputs'] = draw(st.booleans())
            return case
        return cases()
    return make_strategy


def gen_fixed():
    """Every kind x route x side with one mutation of every structural component."""
    def gen():
        structural = [['list-append', 'names', 'Q'], ['list-append', 'check', 'Q'], ['list-append', 'endogenous', 'Q'],
                      ['list-append', 'index', 'Q'], ['list-append', '_attributes', 'Q'], ['list-append', 'note', 'Q'],
                      ['list-pop', 'names'], ['set-plain', 'lags', 3], ['set-plain', 'leads', 2], ['span-mutate'],
                      ['alias', 'w', 'Y'], ['trace', 1, False], ['trace', 2, True], ['solve', True], ['solve', False],
                      ['inplace', ['var', 0], 1, 9], ['add_variable', ['new', 'Q'], {'scalar': 1}, None],
                      ['add_attribute', 'extra', 1], ['add_attribute', 's', 1], ['add_attribute', 'models', [1]], ['strict', True], ['setattr', ['var', 1], {'scalar': 7}],
                      ['sub', 0, ['inplace', ['var', 0], 1, 9]], ['sub', 1, ['list-append', 'check', 'Q']],
                      ['sub', 0, ['solve', False]], ['sub-structure', 'pop'], ['sub-structure', 'add']]
        for kind in KINDS:
            for desc in SPANS[:2]:
                for op in structural:
                    yield {'mode': 'sibling', 'kind': kind, 'span': desc, 'post': [op]}
                    if op[0] in ('inplace', 'solve', 'setattr', 'sub'):
                        yield {'mode': 'sibling', 'kind': kind, 'span': desc, 'post': [op], 'shared_inputs': True}
                    for route in range(3):
                        for side in ('copy', 'orig'):
                            for pre in ([], [['solve', True]], [['solve', False], ['add_variable', ['new', 'W'], {'scalar': 2}, None]],
                                        [['add_attribute', 'sub', 3], ['add_attribute', 'e', {'s': 'v'}]],
                                        # attribute values that are hashable and yet mutable inside
                                        [['add_attribute', 'pair', {'tl': [1, 2]}], ['add_attribute', 'holder', {'obj': [1]}]]):
                                yield {'mode': 'copy', 'kind': kind, 'span': desc, 'pre': pre, 'route': route, 'side': side, 'post': [op]}
                            if op[0] in ('inplace', 'solve', 'setattr'):
                                yield {'mode': 'copy', 'kind': kind, 'span': desc, 'pre': [], 'route': route, 'side': side,
                                       'values_both': True, 'post': [op]}
                                yield {'mode': 'copy', 'kind': kind, 'span': desc, 'pre': [], 'route': route, 'side': side,
                                       'copies_before': 1 + route % 2, 'post': [op]}
                                for how in ('buffer', 'ndarray', 'list'):
                                    yield {'mode': 'copy', 'kind': kind, 'span': desc, 'pre': [], 'route': route, 'side': side,
                                           'set_both': [0, how], 'post': [['inplace', ['var', 0], 1, 9]]}
                                for dt in ('float', 'none'):
                                    yield {'mode': 'copy', 'kind': kind, 'span': desc, 'pre': [], 'route': route, 'side': side,
                                           'add_both': ['W', dt], 'post': [['inplace', ['var', -1], 1, 9]]}
    return gen


def phases(tier):
    quick = tier == 'quick'
    return [
        Phase('fixed-family', check_case, gen=gen_fixed(), exhaustive=True),
        Phase('copy-histories', check_case, strategy=strategy('copy'), examples=4000 if quick else 40000),
        Phase('sibling-histories', check_case, strategy=strategy('sibling'), examples=1500 if quick else 15000),
    ]
