"""C16 - eval() and the time-series helpers compute what their definitions say."""
import itertools
import warnings

import numpy as np

from .. import env  # noqa: F401
from ..core import Phase, Result
from .. import spans, snapshot
from ..represent import Rep, tapes
from ..util import attempt, dec_float, enc_float, same_array

import fsic
from fsic import functions as F
from fsic.core import VectorContainer

ID = 'C16'
TITLE = 'eval() and the time-series helpers compute what their definitions say'
LEVEL = 'exploration'
DESIGN_REF = 'DESIGN.md section 5, C16'
RULE = (
    'helpers: every float array over {-1.5, 0.0, 2.0, NaN} (and int arrays over {-1, 0, 3}) up to the '
    'length bound x every shift p/d in [-n-1, n+1] x fills {NaN, 0.0, -1.5} x {lag, lead, diff, dlog}, '
    'enumerated exhaustively and compared with index-formula reference loops; eval: Hypothesis-generated '
    'expressions (variables, helpers, literals, + - * /, unary -, positional index/slice, backticked label '
    'index/slice, caller locals, shadowing names, undefined names, a caller-supplied builtins= table that is empty, has '
    'lag/lead swapped or defines a variable\'s name) over containers on the span catalogue, '
    'compared with an independent AST interpreter that resolves labels with its own pos(). '
    'Non-trivial: helper case with |p| >= n or p <= 0 or a non-NaN fill; eval expression that mixes a '
    'backticked and a positional subscript, or uses a helper, or shadows a name. Distinct = distinct case JSON.'
)
ASSUMPTIONS = [
    'diff(x, d) for d < 0 is outside the statement: any outcome that leaves x unmodified is accepted',
    'labels are spelt inside backticks as str(label); only str/int/Period/Timestamp labels can be spelt',
    'mixed label/positional bounds inside one subscript are not generated (the statement does not define them)',
]

warnings.showwarning = lambda *a, **k: None  # `eval(..., warnings_='always')` would print to stderr

FLOAT_ALPHABET = [-1.5, 0.0, 2.0, float('nan')]
INT_ALPHABET = [-1, 0, 3]
FILLS = ['nan', 0.0, -1.5]


# -- reference helpers (index formulas, no NumPy tricks) -----------------------


def ref_lag(x, p, fill):
    n = len(x)
    out = []
    for i in range(n):
        j = i - p
        out.append(x[j] if 0 <= j < n else fill)
    return out


def ref_diff(x, d, fill):
    n = len(x)
    out = []
    for i in range(n):
        if i >= d:
            with np.errstate(all='ignore'):
                out.append(x[i] - x[i - d])
        else:
            out.append(fill)
    return out


def pclass(p, n):
    if p == 0:
        return 'p=0'
    if p < 0:
        return 'p<0,|p|>=n' if -p >= n else 'p<0'
    return 'p>=n' if p >= n else '0<p<n'


def check_helper(case):
    fn = case['fn']
    dtype = case['dtype']
    p = case['p']
    if dtype == 'float':
        x = np.array([dec_float(v) for v in case['x']], dtype=float)
        if isinstance(case['fill'], dict):
            # an integer-typed fill value for a float array: the same number, the series keeps its own values and dtype
            fill = int(case['fill']['int']) if 'int' in case['fill'] else np.int64(case['fill']['npint'])
        else:
            fill = dec_float(case['fill'])
    else:
        x = np.array(case['x'], dtype=int)
        fill = int(case['fill'])
    n = len(x)
    pc = pclass(p, n)
    res = Result(nontrivial=(abs(p) >= n or p <= 0 or fill == fill), classes=[f'helper:{fn}', pc])
    before = x.copy()
    xs = list(before)  # NumPy scalars: same arithmetic as the implementation

    func = getattr(F, fn)
    with warnings.catch_warnings():
        warnings.simplefilter('ignore')
        out = attempt(func, x, p, fill_value=fill)
        # expected values
        if fn == 'lag':
            expected = ref_lag(xs, p, fill)
        elif fn == 'lead':
            expected = ref_lag(xs, -p, fill)
        elif fn == 'diff':
            expected = ref_diff(xs, p, fill) if p >= 0 else None
        elif fn == 'dlog':
            expected = ref_diff(list(np.log(before)), p, fill) if p >= 0 else None
        else:  # pragma: no cover
            raise ValueError(fn)

    if not same_array(x, before) or x.dtype != before.dtype:
        res.fail(f'helper/{fn}/input-modified/{pc}', f'x was {before!r}, now {x!r}')
    if expected is None:
        # d < 0 is outside the statement; only "input not modified" applies
        return res
    if not out.ok:
        res.fail(f'helper/{fn}/raised-{out.exc_name}/{pc}', repr(out))
        return res
    got = out.value
    if not isinstance(got, np.ndarray) or got.shape != (n,):
        res.fail(f'helper/{fn}/shape/{pc}', f'result {got!r} for input of length {n}')
        return res
    if not same_array(got, np.array(expected, dtype=got.dtype if dtype == 'int' else float)):
        res.fail(f'helper/{fn}/value/{pc}',
                 f'{fn}({before.tolist()}, {p}, fill_value={fill}) = {got.tolist()}, definition gives {expected}')
    if fn == 'lead':
        twin = attempt(F.lag, before.copy(), -p, fill_value=fill)
        if not twin.ok or not same_array(twin.value, got):
            res.fail(f'helper/lead!=lag(-p)/{pc}', f'lead={got!r} lag(-p)={twin!r}')
    return res


def gen_helpers(max_len, int_len):
    def gen():
        for n in range(1, max_len + 1):
            for xs in itertools.product(range(len(FLOAT_ALPHABET)), repeat=n):
                x = [enc_float(FLOAT_ALPHABET[i]) for i in xs]
                for fn in ('lag', 'lead', 'diff', 'dlog'):
                    for p in range(-n - 1, n + 2):
                        for fill in FILLS + [{'int': 0}, {'int': -1}, {'npint': 4}]:
                            yield {'fn': fn, 'dtype': 'float', 'x': x, 'p': p, 'fill': fill}
        for n in range(1, int_len + 1):
            for xs in itertools.product(INT_ALPHABET, repeat=n):
                for fn in ('lag', 'lead', 'diff'):
                    for p in range(-n - 1, n + 2):
                        for fill in (0, -7):
                            yield {'fn': fn, 'dtype': 'int', 'x': list(xs), 'p': p, 'fill': fill}
    return gen


# -- eval(): expression AST, renderer, reference interpreter -------------------

HELPERS = ('lag', 'lead', 'diff', 'dlog', 'exp', 'log')


def spell(label):
    import pandas as pd
    if isinstance(label, pd.Timestamp):
        return label.strftime('%Y-%m-%d')
    return str(label)


def render(e, pad=''):
    t = e[0]
    if t == 'var':
        return e[1]
    if t == 'num':
        return repr(e[1])
    if t == 'neg':
        return f'(-{render(e[1], pad)})'
    if t == 'bin':
        return f'({render(e[2], pad)} {e[1]} {render(e[3], pad)})'
    if t == 'call':
        args = [render(e[2], pad)] + ([repr(e[3])] if e[3] is not None else [])
        return f'{e[1]}({", ".join(args)})'
    if t == 'idx':
        target = render(e[1], pad)
        ix = e[2]
        k = ix[0]
        if k == 'pos':
            inner = repr(ix[1])
        elif k == 'pslice':
            inner = _render_slice([None if v is None else repr(v) for v in ix[1:4]])
        elif k == 'lab':
            inner = f'`{ix[1]}`'
        elif k == 'lslice':
            a, b, s = ix[1:4]
            inner = _render_slice([None if a is None else f'`{a}`', None if b is None else f'`{b}`',
                                   None if s is None else repr(s)])
        else:  # pragma: no cover
            raise ValueError(ix)
        return f'{target}[{pad}{inner}{pad}]'
    raise ValueError(e)


def _render_slice(parts):
    a, b, s = parts
    out = f'{a or ""}:{b or ""}'
    if s is not None:
        out += f':{s}'
    return out


class RefKeyError(Exception):
    pass


class RefNameError(Exception):
    def __init__(self, name):
        super().__init__(name)
        self.name = name


def resolve_label(text, labs, kind):
    """Backticked text -> position (int) or (first, last) positions for a partial pandas label.

    Rule of the documentation: try the text as a string label, then as an int label.
    """
    import pandas as pd
    if kind == 'period':
        hits = [i for i, x in enumerate(labs) if str(x) == text]
        if hits:
            return hits[0]
        # coarser spelling (a year in a quarterly index) denotes all matching periods
        try:
            coarse = pd.Period(text)
        except Exception:  # noqa: BLE001
            raise RefKeyError(text)
        hits = [i for i, x in enumerate(labs)
                if coarse.start_time <= x.start_time and x.end_time <= coarse.end_time]
        if not hits:
            raise RefKeyError(text)
        if len(hits) == 1 and coarse.freqstr == labs[hits[0]].freqstr:
            return hits[0]
        return (hits[0], hits[-1])
    if kind == 'datetime':
        hits = [i for i, x in enumerate(labs) if x.strftime('%Y-%m-%d') == text]
        if hits:
            return hits[0]
        raise RefKeyError(text)
    p = spans.pos(labs, text)
    if p is not None:
        return p
    try:
        as_int = int(text)
    except ValueError:
        raise RefKeyError(text)
    p = spans.pos(labs, as_int)
    if p is None:
        raise RefKeyError(text)
    return p


def ref_eval(e, scope, labs, kind):
    t = e[0]
    if t == 'var':
        if e[1] not in scope:
            raise RefNameError(e[1])
        return scope[e[1]]
    if t == 'num':
        return e[1]
    if t == 'neg':
        return -ref_eval(e[1], scope, labs, kind)
    if t == 'bin':
        a = ref_eval(e[2], scope, labs, kind)
        b = ref_eval(e[3], scope, labs, kind)
        op = e[1]
        if op == '+':
            return a + b
        if op == '-':
            return a - b
        if op == '*':
            return a * b
        return a / b
    if t == 'call':
        if e[1] not in scope:
            raise RefNameError(e[1])
        f = scope[e[1]]
        arg = ref_eval(e[2], scope, labs, kind)
        if e[3] is None:
            return f(arg)
        return f(arg, e[3])
    if t == 'idx':
        target = ref_eval(e[1], scope, labs, kind)
        ix = e[2]
        k = ix[0]
        if k == 'pos':
            return target[ix[1]]
        if k == 'pslice':
            return target[ix[1]:ix[2]:ix[3]]
        if k == 'lab':
            p = resolve_label(ix[1], labs, kind)
            if isinstance(p, tuple):
                return target[p[0]:p[1] + 1]
            return target[p]
        if k == 'lslice':
            a, b, s = ix[1:4]
            start = stop = None
            if a is not None:
                p = resolve_label(a, labs, kind)
                start = p[0] if isinstance(p, tuple) else p
            if b is not None:
                p = resolve_label(b, labs, kind)
                stop = (p[1] if isinstance(p, tuple) else p) + 1
            return target[start:stop:s]
    raise ValueError(e)


def _has_absent_label(e, labs, kind):
    t = e[0]
    if t == 'idx':
        ix = e[2]
        texts = [ix[1]] if ix[0] == 'lab' else [v for v in ix[1:3] if v is not None] if ix[0] == 'lslice' else []
        for txt in texts:
            try:
                resolve_label(txt, labs, kind)
            except RefKeyError:
                return True
        return _has_absent_label(e[1], labs, kind)
    if t in ('neg',):
        return _has_absent_label(e[1], labs, kind)
    if t == 'call':
        return _has_absent_label(e[2], labs, kind)
    if t == 'bin':
        return _has_absent_label(e[2], labs, kind) or _has_absent_label(e[3], labs, kind)
    return False


def ref_helpers():
    """Reference implementations bound under the helper names (array in, array out)."""
    def lag(x, p=1):
        return np.array(ref_lag(list(x), p, np.nan), dtype=float)

    def lead(x, p=1):
        return np.array(ref_lag(list(x), -p, np.nan), dtype=float)

    def diff(x, d=1):
        if d < 0:
            raise NotImplementedError
        return np.array(ref_diff(list(x), d, np.nan), dtype=float)

    def dlog(x, d=1):
        return diff(np.log(x), d)

    return {'lag': lag, 'lead': lead, 'diff': diff, 'dlog': dlog, 'exp': np.exp, 'log': np.log}


def _features(e, acc):
    t = e[0]
    if t == 'idx':
        acc.add('label' if e[2][0] in ('lab', 'lslice') else 'positional')
        if e[2][0] == 'pslice':
            acc.add('pslice')
        _features(e[1], acc)
    elif t == 'call':
        acc.add('helper')
        _features(e[2], acc)
    elif t == 'neg':
        _features(e[1], acc)
    elif t == 'bin':
        _features(e[2], acc)
        _features(e[3], acc)
    return acc


def check_eval(case):
    desc = case['span']
    labs = spans.labels(desc)
    kind = desc['k']
    span = spans.build(desc)
    c = VectorContainer(span)
    variables = {}
    for name, vals in case['vars']:
        arr = np.array([dec_float(v) for v in vals], dtype=float)
        c.add_variable(name, arr.copy())
        variables[name] = arr
    by = case.get('bystanders') or []
    if by:
        # further series of other dtypes in the same container (not mentioned by the expression): a container holds one
        # array per variable, each with its own dtype
        n_ = len(labs)
        if 'str' in by:
            c.add_variable('bystander_s', ['s%d' % i for i in range(n_)], dtype=str)
        if 'int' in by:
            c.add_variable('bystander_n', [2 ** 53 + 1 + i for i in range(n_)], dtype=int)
        if 'bool' in by:
            c.add_variable('bystander_b', [i % 2 == 0 for i in range(n_)], dtype=bool)
    user_locals = None
    if case.get('locals') is not None:
        user_locals = {k: (np.array([dec_float(x) for x in v], dtype=float) if isinstance(v, list) else v)
                       for k, v in case['locals']}
    expr = case['expr']
    text = render(expr, pad=case.get('pad', ''))
    feats = _features(expr, set())
    shadow = bool(user_locals) or any(n in HELPERS for n, _ in case['vars'])
    res = Result(nontrivial=({'label', 'positional'} <= feats) or ('helper' in feats) or shadow,
                 classes=['eval', 'span:' + kind] + ['eval:' + f for f in sorted(feats)]
                 + (['eval:shadowing'] if shadow else []))

    table_before = dict(F.builtins)
    snap_before = snapshot.snapshot(c)
    mode = case.get('warnings', 'ignore')

    scope = dict(ref_helpers())
    custom = None
    bmode = case.get('builtins')
    if bmode == 'empty':
        scope, custom = {}, {}                       # no helper is defined at all
    elif bmode == 'swapped':
        scope.update(lag=scope['lead'], lead=scope['lag'])
        custom = dict(F.builtins)
        custom.update(lag=F.builtins['lead'], lead=F.builtins['lag'])
    elif bmode == 'shadowed':
        # the caller's table defines a name that is also a variable: the variable wins
        custom = dict(F.builtins)
        custom[case['vars'][0][0]] = np.full(len(labs), 99.0)
        scope[case['vars'][0][0]] = np.full(len(labs), 99.0)
    if custom is not None:
        res.tag('eval:custom-builtins:' + bmode)
        res.nontrivial = True
    scope.update({k: v.copy() for k, v in variables.items()})
    if user_locals:
        scope.update({k: (v.copy() if isinstance(v, np.ndarray) else v) for k, v in user_locals.items()})
    with warnings.catch_warnings():
        warnings.simplefilter(mode)
        expected = attempt(ref_eval, expr, scope, labs, kind)
    extra = {} if custom is None else {'builtins': custom}
    rep = Rep(case.get('rep'))
    # (caller locals may be any mapping: a read-only proxy, a ChainMap, a UserDict)
    got = attempt(c.eval, text, locals=None if user_locals is None else rep.mapping(user_locals), warnings_=mode, **extra)
    rep.tag(res)

    cls = ('mixed' if {'label', 'positional'} <= feats else
           'label' if 'label' in feats else 'positional' if 'positional' in feats else 'plain')
    if 'pslice' in feats and 'label' in feats:
        cls += '+pslice'
    where = f'{kind}/{cls}'
    if expected.ok:
        if not got.ok:
            res.fail(f'eval/raised-{got.exc_name}/{where}', f'{text!r}: expected {expected!r}, got {got!r}')
        else:
            a, b = np.asarray(expected.value), np.asarray(got.value)
            if not same_array(a, b) or a.dtype.kind != b.dtype.kind:
                res.fail(f'eval/value/{where}', f'{text!r}: expected {expected.value!r}, got {got.value!r}')
    else:
        exc = expected.exc
        if isinstance(exc, RefNameError):
            if got.ok or not isinstance(got.exc, AttributeError) or exc.name not in str(got.exc):
                res.fail(f'eval/undefined-name/{where}',
                         f'{text!r}: expected AttributeError naming {exc.name!r}, got {got!r}')
        elif isinstance(exc, RefKeyError):
            if got.ok or not isinstance(got.exc, KeyError):
                res.fail(f'eval/absent-label/{where}', f'{text!r}: expected KeyError, got {got!r}')
        elif got.ok or type(got.exc) is not type(exc):
            res.fail(f'eval/exception-type/{where}', f'{text!r}: expected {expected!r}, got {got!r}')
        if res.violations and _has_absent_label(expr, labs, kind) and not got.ok and isinstance(got.exc, KeyError):
            # two errors at once (an absent label and something else): labels are documented to be
            # resolved in a preprocessing step, so KeyError is an acceptable report as well
            res.violations.clear()

    d = snapshot.first_diff_key(snap_before, snapshot.snapshot(c))
    if d:
        res.fail(f'eval/container-changed/{d}', f'{text!r} changed the container at {d}')
    if list(F.builtins) != list(table_before) or any(F.builtins[k] is not table_before[k] for k in table_before):
        res.fail('eval/helper-table-changed', f'{text!r}: fsic.functions.builtins now has keys {list(F.builtins)}')
        F.builtins.clear()
        F.builtins.update(table_before)
    return res


def eval_strategy(max_len):
    from hypothesis import strategies as st

    span_descs = [d for d in spans.catalogue(max_len, min_len=1) + spans.catalogue_long()
                  if all(isinstance(x, (str, int)) and x != '' for x in
                         (d.get('items') or [0]))]

    values = st.sampled_from([-1.5, 0.0, 2.0, 1.0, 0.5, 4.0, 'nan'])

    @st.composite
    def cases(draw):
        desc = draw(st.sampled_from(span_descs))
        labs = spans.labels(desc)
        n = len(labs)
        kind = desc['k']
        names = draw(st.sampled_from([['X', 'Y'], ['X', 'Y', 'Z'], ['X', 'lag'], ['exp', 'Y'], ['X'],
                                      ['\u03b1', 'Y'], ['X', '\u0394Y', 'Y\u00e9'], ['x_1', '_u'],
                                      # a variable is addressed by key: names of attributes / private slots are legal names
                                      ['X', '_X'], ['size', 'W'], ['span', 'Y'], ['values', 'X', 'index'], ['strict', 'copy']]))
        vars_ = [[nm, draw(st.lists(values, min_size=n, max_size=n))] for nm in names]
        user_locals = None
        loc_kind = draw(st.sampled_from(['none', 'none', 'new', 'shadow-var', 'shadow-helper']))
        if loc_kind == 'new':
            user_locals = [['w', draw(st.lists(values, min_size=n, max_size=n))]]
        elif loc_kind == 'shadow-var':
            user_locals = [[names[0], draw(st.lists(values, min_size=n, max_size=n))]]
        elif loc_kind == 'shadow-helper':
            user_locals = [['lead', draw(st.lists(values, min_size=n, max_size=n))]]
        arrays = list(names) + ([user_locals[0][0]] if user_locals else [])
        if loc_kind != 'shadow-helper':
            pass
        label_texts = [spell(x) for x in labs]
        absent = [spell(x) for x in spans.absent_labels(desc) if isinstance(x, (str, int)) or kind in ('period', 'datetime')]
        absent = [a for a in absent if a and ':' not in a]
        if kind == 'period' and desc['freq'] == 'Q':
            label_texts = label_texts + sorted({t[:4] for t in label_texts})  # a year in a quarterly index

        def lab():
            return st.one_of(st.sampled_from(label_texts),
                             st.sampled_from(absent) if absent else st.sampled_from(label_texts))

        small = st.integers(-n - 1, n + 1)
        opt_small = st.one_of(st.none(), small)
        step = st.sampled_from([None, None, 1, 2, 3])
        index = st.one_of(
            st.tuples(st.just('pos'), st.integers(-n, n - 1)).map(list),
            st.tuples(st.just('pos'), small).map(list),
            st.tuples(st.just('pslice'), opt_small, opt_small, step).map(list),
            st.tuples(st.just('lab'), st.sampled_from(label_texts)).map(list),
            st.tuples(st.just('lab'), lab()).map(list),
            st.tuples(st.just('lslice'), st.one_of(st.none(), st.sampled_from(label_texts)),
                      st.one_of(st.none(), st.sampled_from(label_texts)), step).map(list),
            st.tuples(st.just('lslice'), st.one_of(st.none(), lab()), st.one_of(st.none(), lab()), step).map(list),
        )
        name_pool = arrays + ['Q']  # 'Q' is undefined unless it is a label-less name
        var = st.sampled_from(arrays).map(lambda nm: ['var', nm])
        anyvar = st.sampled_from(name_pool + arrays * 3).map(lambda nm: ['var', nm])
        num = st.sampled_from([0, 1, 2, 2.0, 0.5, -1]).map(lambda v: ['num', v])
        helper_names = [h for h in HELPERS if h not in names and not (user_locals and user_locals[0][0] == h)]
        # diff/dlog with d = 0 is a known finding of the helpers phase (witness there); it is excluded
        # here by construction so that the search continues past it
        call = st.tuples(st.just('call'), st.sampled_from(helper_names), var,
                         st.sampled_from([None, 0, 1, 2, -1, n, n + 1])).map(list).map(
            lambda c: c if not (c[1] in ('diff', 'dlog') and c[3] == 0) else [c[0], c[1], c[2], 1])
        leaf = st.one_of(anyvar, num, st.tuples(st.just('idx'), st.one_of(var, call), index).map(list), call)

        def extend(children):
            return st.one_of(
                st.tuples(st.just('bin'), st.sampled_from(['+', '-', '*', '/']), children, children).map(list),
                st.tuples(st.just('neg'), children).map(list),
            )

        expr = draw(st.recursive(leaf, extend, max_leaves=4))
        case = {'span': desc, 'vars': vars_, 'locals': user_locals, 'expr': expr,
                'pad': draw(st.sampled_from(['', '', ' '])),
                'warnings': draw(st.sampled_from(['ignore', 'ignore', 'error', 'always']))}
        if draw(st.integers(0, 5)) == 0:
            case['builtins'] = draw(st.sampled_from(['empty', 'swapped', 'shadowed']))
        if user_locals is not None:
            case['rep'] = draw(tapes(1))
        if draw(st.integers(0, 3)) == 0:
            case['bystanders'] = draw(st.sampled_from([['str'], ['int'], ['bool'], ['str', 'int', 'bool'], ['int', 'bool']]))
        return case

    return cases()


def selfcheck():
    # the renderer and the reference interpreter agree with plain Python on a fixed example
    from ..core import HarnessError
    e = ['bin', '+', ['idx', ['var', 'X'], ['pslice', 1, None, 2]], ['num', 1]]
    if render(e) != '(X[1::2] + 1)':
        raise HarnessError('C16 renderer self-check failed: ' + render(e))
    got = ref_eval(e, {'X': np.arange(5.0)}, [0, 1, 2, 3, 4], 'range')
    if got.tolist() != [2.0, 4.0]:
        raise HarnessError('C16 reference interpreter self-check failed')


def phases(tier):
    quick = tier == 'quick'
    return [
        Phase('helpers', check_helper, gen=gen_helpers(5 if quick else 7, 4 if quick else 6), exhaustive=True),
        Phase('eval', check_eval, strategy=lambda: eval_strategy(5), examples=4000 if quick else 120000),
    ]

TECHNIQUE = ('exhaustive enumeration of small arrays/shifts/fills against index-formula reference loops; Hypothesis-generated '
             'eval() expressions against an independent AST interpreter (differential oracle), seeded and shrunk')
LEVEL_TEXT = ('Bounded-exhaustive for the helpers (every array over a 4-value alphabet up to the length bound, every shift, three fills) '
              'and randomised search for eval() over the span catalogue; this is the right level because the property is a universally '
              'quantified input/output relation with a cheap executable oracle.')
LEVEL_NOTE = ('Trusted: NumPy arithmetic, my reference loops / interpreter and pos(); not covered: arrays beyond the length bound, '
              'eval expressions outside the generated grammar (list literals, nested subscripts of subscripts).')
