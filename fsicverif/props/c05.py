"""C05 - solve() equals the ordered sequence of single-period solves; failures are contained."""
import numpy as np

from .. import env  # noqa: F401
from ..core import Phase, Result
from .. import refsolver, scripted, snapshot, spans
from .. import solvecheck as SC
from ..represent import Rep, tapes, with_rep
from ..util import attempt

import fsic
from fsic.exceptions import SolutionError

ID = 'C05'
TITLE = 'solve() equals the ordered sequence of single-period solves; failures contained'
LEVEL = 'exploration'
DESIGN_REF = 'DESIGN.md section 5, C05'
RULE = (
    'differential on twin scripted models (with lags/leads, per-period outcome scripts incl. moves, non-finite values, '
    'warnings and exceptions) over the span catalogue (range with non-zero origin, lists of str / mixed hashables / ints '
    'incl. falsy labels, NumPy int/str arrays, pandas Index, annual/quarterly PeriodIndex, DatetimeIndex): model A gets '
    'solve(start, end, **opts), twin B the loop of solve_t over range(pos(start), pos(end)+1) with my own pos(), twin C '
    'solve_period(label) per label; every (start, end) pair over labels, None and absent labels is enumerated for spans up '
    'to the length bound, Hypothesis draws options, scripts and fault positions. Oracle: equal return triples, equal '
    'exception types, identical full snapshots (incl. the call log: visit order) - hence earlier periods complete, the '
    'failing period stamped per policy and later periods untouched; SolutionError for an empty span; KeyError with '
    'unchanged snapshot for unknown labels and labels that resolve to several positions. Non-trivial: the range has '
    '>= 2 periods and (a fault sits on a period other than the first, or the span is not a range). Distinct = case JSON.'
)
ASSUMPTIONS = ['spans have at least LAGS+LEADS+1 periods when default start/end are used',
               'labels are compared with == (my pos()); bool labels are not generated']
TECHNIQUE = 'differential testing of solve() against an explicit loop of solve_t / solve_period on twin scripted models; exhaustive (start,end) enumeration + Hypothesis'
LEVEL_TEXT = ('solve() is compared with the explicit fold of the single-period solver on twin models for every (start, end) pair '
              'of small spans of every supported type and for generated option sets and fault placements.')
LEVEL_NOTE = 'Trusted: spans.pos(), the scripted model wrapper, snapshot(). Not covered: spans longer than the bound.'


def make(case):
    nv = case.get('nvars', 1)
    cls = scripted.make_class(SC.NAMES[:nv], lags=case.get('lags', 0), leads=case.get('leads', 0))
    span = spans.build(case['span'])
    n = len(span)
    m = cls(span, **{nm: np.array([1.0 + i for i in range(n)]) for nm in SC.NAMES[:nv] + ['X']})
    scripted.arm(m, {})
    if case.get('presolved') and n:
        # state left over from an earlier, complete solve (statuses and iteration counts are set everywhere feasible)
        attempt(m.solve, max_iter=2, tol=0.5, failures='ignore', errors='ignore')
    scripted.arm(m, case.get('script'))
    return m


def strip(snap):
    return snap


def check_case(case):
    desc = case['span']
    labs = spans.labels(desc)
    n = len(labs)
    L, K = case.get('lags', 0), case.get('leads', 0)
    opts = dict(case.get('opts') or {})
    start = spans.dec_label(case['start']) if case.get('start') is not None else None
    end = spans.dec_label(case['end']) if case.get('end') is not None else None
    res = Result(classes=['span:' + desc['k']])
    A = make(case)
    before = snapshot.snapshot(A)
    kw = {}
    if case.get('start') is not None:
        kw['start'] = start
    if case.get('end') is not None:
        kw['end'] = end
    rep = Rep(case.get('rep'))
    got = attempt(A.solve, **kw, **rep.opts(opts))      # the loop of solve_t below receives the plain values
    rep.tag(res)
    detail = f'span={desc} start={start!r} end={end!r} lags={L} leads={K} {SC.opts_text(opts)} script={case.get("script")}'

    if opts.get('min_iter', 0) > opts.get('max_iter', 100):
        if got.ok or not isinstance(got.exc, ValueError):
            res.fail('solve/min_iter>max_iter', f'{detail}: {got!r}')
        return res
    if n == 0:
        res.tag('empty-span')
        # with an explicit start/end on an empty span the label is unknown as well: either report is acceptable
        allowed = (SolutionError, KeyError) if kw else (SolutionError,)
        if got.ok or not isinstance(got.exc, allowed):
            res.fail('solve/empty-span', f'{detail}: expected SolutionError, got {got!r}')
        return res

    def locate(label, which):
        """-> position, or 'absent' / 'ambiguous'."""
        if desc['k'] == 'period' and isinstance(label, str):
            hits = [i for i, x in enumerate(labs) if str(x) == label]
            if hits:
                return hits[0]
            import pandas as pd
            try:
                coarse = pd.Period(label)
            except Exception:  # noqa: BLE001
                return 'absent'
            inside = [i for i, x in enumerate(labs) if coarse.start_time <= x.start_time and x.end_time <= coarse.end_time]
            if len(inside) > 1 or (len(inside) == 1 and coarse.freqstr != labs[0].freqstr):
                return 'ambiguous'
            return 'absent'
        p = spans.pos(labs, label)
        if p is not None and (spans.is_pandas(desc) or desc['k'] == 'np') and sum(1 for x in labs if spans.pos([x], label) == 0) > 1:
            # pandas resolves a repeated label to a slice / mask, not to one position; the lookup for NumPy-array spans
            # refuses several matches as well
            return 'ambiguous'
        return 'absent' if p is None else p

    dup = [x for x in labs if sum(1 for y in labs if spans.pos([y], x) == 0) > 1]
    plain_dup = bool(dup) and desc['k'] in ('list', 'tuple')
    if plain_dup:
        # a list / tuple span with repeated labels: a label denotes its first occurrence (list.index), and solve() walks
        # the *positions* between start and end - every one of them, also the later occurrences of a repeated label
        res.tag('repeated-labels:list')
    elif dup and not any(lab is not None and spans.pos(dup, lab) is not None for lab in (start, end)):
        # a span with repeated labels: only the clause about an explicit start/end that does not resolve to a
        # single position is asserted (period -> label -> position is not one-to-one otherwise)
        res.tag('skipped:repeated-labels-without-ambiguous-start-end')
        return res
    bad = None
    p0 = L
    p1 = n - 1 - K
    if plain_dup:
        # the documented defaults are *labels* (span[lags], span[-1 - leads]); on a list with repeated labels a label
        # denotes its first occurrence, whether it was passed or defaulted
        p0, p1 = spans.pos(labs, labs[L]), spans.pos(labs, labs[n - 1 - K])
    if case.get('start') is not None:
        p0 = locate(start, 'start')
        if not isinstance(p0, int):
            bad = bad or p0
    if case.get('end') is not None:
        p1 = locate(end, 'end')
        if not isinstance(p1, int):
            bad = bad or p1
    if bad:
        res.tag('bad-label:' + bad)
        res.nontrivial = True
        if got.ok or not isinstance(got.exc, KeyError):
            res.fail(f'solve/{bad}-label-not-KeyError', f'{detail}: {got!r}')
        d = snapshot.first_diff_key(before, snapshot.snapshot(A))
        if d:
            res.fail(f'solve/{bad}-label-changed-state', f'{detail}: changed {d}')
        return res

    # twin B: explicit loop of solve_t ; twin C: solve_period per label
    B = make(case)
    C = make(case)
    triple = ([], [], [])
    exc = None
    for p in range(p0, p1 + 1):
        r = attempt(B.solve_t, p, **opts)
        if not r.ok:
            exc = r.exc
            attempt(C.solve_t, p, **opts) if plain_dup else attempt(C.solve_period, labs[p], **opts)
            break
        if plain_dup:
            C.solve_t(p, **opts)          # (solve_period would address the first occurrence of a repeated label)
            rc = r
        else:
            rc = attempt(C.solve_period, labs[p], **opts)
        if not rc.ok or rc.value != r.value:
            res.fail('solve_period-vs-solve_t/outcome/' + desc['k'], f'{detail}: period {labs[p]!r}: solve_t {r!r}, solve_period {rc!r}')
        triple[0].append(labs[p])
        triple[1].append(p)
        triple[2].append(bool(r.value))
    visited = max(0, p1 - p0 + 1)
    script = case.get('script') or {}
    fault_later = any(int(k.split(':')[0]) > p0 for k, toks in script.items() if SC.has_fault({k: toks}))
    res.nontrivial = visited >= 2 and (fault_later or desc['k'] != 'range')
    if visited == 0:
        res.tag('empty-range')
    if exc is not None:
        res.tag('raises:' + type(exc).__name__)
        if got.ok or type(got.exc) is not type(exc):
            res.fail('solve/exception-type', f'{detail}: solve() {got!r}, loop of solve_t raised {type(exc).__name__}')
    elif not got.ok:
        res.fail(f'solve/raised-{got.exc_name}/' + desc['k'], f'{detail}: solve() {got!r}, loop of solve_t returned {triple}')
        return res
    else:
        labels, idx, flags = got.value
        same_labels = len(labels) == len(triple[0]) and all(spans.pos([a], b) == 0 for a, b in zip(labels, triple[0]))
        if not same_labels or list(idx) != triple[1] or [bool(f) for f in flags] != triple[2] \
                or not all(isinstance(i, (int, np.integer)) for i in idx):
            res.fail('solve/return-value/' + desc['k'], f'{detail}: solve() returned {got.value!r}, loop of solve_t gives {triple}')
    sa, sb, sc = snapshot.snapshot(A), snapshot.snapshot(B), snapshot.snapshot(C)
    d = snapshot.first_diff_key(sa, sb)
    if d:
        res.fail('solve/state-differs-from-loop/' + d.split('/')[0], f'{detail}: solve() and the loop of solve_t differ at {d}; '
                 f'solve log {A.__dict__["_log"]}, loop log {B.__dict__["_log"]}')
    d = snapshot.first_diff_key(sb, sc)
    if d:
        res.fail('solve_period-vs-solve_t/state/' + d.split('/')[0], f'{detail}: differ at {d}')
    # independent of the single-period solver as well: fold the reference machine of C02/C06 over the requested range
    # (only where every requested period can accommodate the lags/leads - the machine has no notion of them)
    if not dup and p0 >= L and p1 <= n - 1 - K:
        names = SC.NAMES[:case.get('nvars', 1)]
        ref = SC.state_of(make(case), names + ['X'])
        ref['values'] = {k: np.array(v, dtype=float) for k, v in ref['values'].items()}
        loose = False
        for p in range(p0, p1 + 1):
            want = refsolver.solve_t(ref, p, n, check=names, endogenous=names, evaluate=scripted.ref_evaluate_cb(script), **opts)
            loose = loose or want.loose
            if want.exc:
                break
        if not loose:
            res.tag('reference-fold')
            SC.compare_states(res, 'solve/reference-fold', A, ref, names + ['X'], detail)
    return res


PASSES = [
    [],                                                                       # nothing moves
    [['A', ['move', 1.0]], ['A', ['move', 0.25]]],                            # converges at pass 2 (tol .5) / 3 (default)
    [['A', ['move', 1.0]], ['A', ['move', 1.0]], ['A', ['move', 1.0]], ['A', ['move', 1.0]]],   # keeps moving
    [['A', ['move', 1.0]], ['A', ['move', 2.0 ** -30]]],      # a second move just above the default tolerance (2 / 3 passes)
    [['A', ['move', 1.0]], ['A', ['move', 2.0 ** -34]]],      # ... just below it (converges at pass 2 by default)
]


def script_for(n, kinds, fault=None):
    script = {}
    for T in range(n):
        for k, toks in enumerate(PASSES[kinds[T % len(kinds)]]):
            script[f'{T}:{k + 1}'] = [toks]
    if fault:
        T, k, tok = fault
        script[f'{T}:{k}'] = script.get(f'{T}:{k}', []) + [['A', tok]]
    return script


DUPLICATE_SPANS = [{'k': 'pdindex', 'items': ['a', 'b', 'a', 'c']}, {'k': 'pdindex', 'items': ['a', 'a', 'b', 'c']},
                   {'k': 'pdindex', 'items': [3, 1, 2, 1, 0]}, {'k': 'pdindex', 'items': [5, 6, 6]},
                   # NumPy-array spans with a repeated label, sorted and not
                   {'k': 'np', 'items': [1, 2, 2, 3]}, {'k': 'np', 'items': ['a', 'a', 'b', 'c']}, {'k': 'np', 'items': [3, 1, 2, 1, 0]},
                   {'k': 'np', 'items': [5, 6, 6]}, {'k': 'np', 'items': [2000, 2000, 2001]},
                   # plain lists / tuples: a repeated label inside the range, a bool next to the int it equals
                   {'k': 'list', 'items': ['a', 'b', 'c', 'c', 'd']}, {'k': 'list', 'items': [2001, 2002, 2002, 2002, 2003]},
                   {'k': 'list', 'items': [0, 1, True, 2, 3]}, {'k': 'list', 'items': ['x', 'y', 'x', 'z'], 'as': 'tuple'}]


def gen_pairs(max_len):
    def gen():
        i = 0
        for desc in spans.catalogue(max_len) + DUPLICATE_SPANS:
            labs = spans.labels(desc)
            n = len(labs)
            cands = [None] + [spans.enc_label(x) for x in labs] + [spans.enc_label(x) for x in spans.absent_labels(desc)[:1]]
            odd = spans.odd_absent_labels(desc)
            if odd:
                cands.append(spans.enc_label(odd[i % len(odd)]))     # an unknown label of another type altogether
            if desc['k'] == 'period':
                cands += [str(x) for x in labs[:2]]
                if desc['freq'] == 'Q' and labs:
                    cands.append(str(labs[0].year))      # a year in a quarterly index: several positions
            for lags, leads in ((0, 0), (1, 0), (1, 1)):
                if n < lags + leads + 1 and n > 0:
                    continue
                for s in cands:
                    for e in cands:
                        i += 1
                        yield {'span': desc, 'start': s, 'end': e, 'lags': lags, 'leads': leads, 'nvars': 1, 'presolved': i % 2 == 0,
                               'script': script_for(n, [[1], [1, 0], [1, 0, 2], [3], [3, 0], [4, 2, 3]][i % 6],
                                                    [i % max(n, 1), 1, ['raise', ['KeyError', 'RuntimeError', 'UserDefined', 'AssertionError'][(i // 5) % 4]]]
                                                    if i % 5 == 0 and n else None),
                               'opts': [{'max_iter': 3, 'failures': 'ignore', 'tol': 0.5},
                                        {'max_iter': 5, 'failures': 'ignore'},
                                        {'max_iter': 4, 'min_iter': 4, 'failures': 'ignore', 'tol': 0.5}][i % 3]}
    return gen


def strategy():
    from hypothesis import strategies as st
    descs = spans.catalogue(5, min_len=1) + spans.catalogue_long()
    faults = st.sampled_from([['set', 'nan'], ['set', 'inf'], 'warn', ['warn', 'UserWarning', 'inf'], ['warn', 'FutureWarning', 1.0], ['raise', 'ZeroDivisionError'], ['raise', 'KeyError'], ['raise', 'RuntimeError'],
                              ['raise', 'AssertionError'], ['raise', 'UserDefined'], ['raise', 'OSError'], ['move', 100.0]])

    @st.composite
    def cases(draw):
        desc = draw(st.sampled_from(descs))
        labs = spans.labels(desc)
        n = len(labs)
        lags = draw(st.integers(0, min(2, n - 1)))
        leads = draw(st.integers(0, min(1, n - 1 - lags)))
        lab = st.one_of(st.none(), st.sampled_from([spans.enc_label(x) for x in labs]), st.sampled_from([spans.enc_label(x) for x in labs]),
                        st.sampled_from([spans.enc_label(x) for x in spans.odd_absent_labels(desc)] or [None]))
        fault = None
        if draw(st.booleans()):
            fault = [draw(st.integers(0, n - 1)), draw(st.integers(1, 3)), draw(faults)]
        opts = {
            'min_iter': draw(st.sampled_from([0, 0, 2, 4])),
            'max_iter': draw(st.sampled_from([0, 1, 3, 5])),
            'tol': draw(st.sampled_from([0.5, 1e-10, 2.0])),
            'failures': draw(st.sampled_from(['raise', 'ignore'])),
            'errors': draw(st.sampled_from(['raise', 'skip', 'ignore', 'replace'])),
            'catch_first_error': draw(st.booleans()),
        }
        if draw(st.booleans()):
            opts['offset'] = draw(st.sampled_from([-1, 1]))
        if draw(st.integers(0, 3)) == 0:
            del opts['tol']
        if draw(st.integers(0, 3)) == 0:
            del opts['min_iter']
        return {'span': desc, 'start': draw(lab), 'end': draw(lab), 'lags': lags, 'leads': leads, 'nvars': 1,
                'presolved': draw(st.booleans()),
                'script': script_for(n, draw(st.lists(st.integers(0, 4), min_size=1, max_size=3)), fault),
                'opts': opts, 'rep': draw(tapes())}
    return cases()


def phases(tier):
    quick = tier == 'quick'
    return [
        Phase('start-end-pairs', check_case, gen=with_rep(gen_pairs(4 if quick else 6)), exhaustive=True),
        Phase('options-and-faults', check_case, strategy=strategy, examples=6000 if quick else 200000),
    ]
