"""C04 - solving a period touches only that period; reads never wrap round the span."""
import itertools

import numpy as np

from .. import env  # noqa: F401
from ..core import Phase, Result
from .. import grammar as G
from .. import reference as R
from ..recarray import install, uninstall
from ..represent import Rep, tapes
from ..util import attempt, same_array, same_value

import fsic

ID = 'C04'
TITLE = 'Solving a period touches only that period; reads never wrap round the span'
LEVEL = 'exploration'
DESIGN_REF = 'DESIGN.md section 5, C04; 2.8(1)'
RULE = (
    'parser-built models from grammar G without verbatim code (lags and leads up to 3, also on parameters, errors and '
    'left-hand sides) on spans of every length from LAGS+LEADS+1 to +4: solve_t at EVERY position in both spellings '
    '(0..n-1 and -n..-1) including the infeasible ones at both ends, solve() with every (start, end) pair, and calls that '
    'must be rejected up front (min_iter > max_iter, out-of-span offset, pre-existing non-finite check values). Oracle: '
    'byte-level comparison of every series before/after - only the cells the reference says the statements assign for t '
    'and status/iterations at t may differ; recording arrays - every read during the solve addresses (name, T+offset) '
    'for a term of the script with 0 <= T+offset < n; differential against a padded-span twin (LAGS extra periods in '
    'front, LEADS behind, sentinel-filled) - identical results for feasible t; for an infeasible t the call must raise. '
    'solve(start, end) ranges that contain an infeasible period (or an offset source outside the span) must refuse it when it '
    'is reached, nothing written for it - under plain options, offset -1/+1, max_iter=0 and both, on the Python engine and on '
    'the gfortran-compiled engine (64 programs in the quick tier); objects whose series were all set from one shared array. '
    'Non-trivial: LAGS+LEADS >= 1 and the position is the first/last feasible one or infeasible. Distinct = case JSON.'
)
ASSUMPTIONS = ['models are built with the script\'s own lag/lead lengths (no smaller explicit lags=/leads=)',
               'a rejected call with offset != 0 whose non-finite value arrives through the offset copy may change the '
               'endogenous cells at t to the values at t+offset (the copy comes first) and nothing else']
TECHNIQUE = 'Hypothesis grammar-based models x exhaustive positions; frame oracle (byte-identical untouched cells), recording arrays, padded-twin differential'
LEVEL_TEXT = ('Each generated model is solved at every position of spans of several lengths; what changed and what was read are '
              'compared with the reference read/write sets, and a padded twin detects values served from the opposite end.')
LEVEL_NOTE = 'Trusted: reference read/write sets from the generator tree, recording arrays. Not covered: verbatim code.'

SOLVE_KW = {'max_iter': 3, 'failures': 'ignore', 'errors': 'ignore'}


def build(prog):
    ref = G.Reference(prog)
    text, _ = G.render_program(prog, [])
    M = fsic.build_model(fsic.parse_model(text))
    return ref, text, M


def fresh(M, ref, n, bases, shift=0, origin=100, history=None):
    data = R.make_data(ref.names, n, bases)
    if shift:
        for k in data:
            data[k] = data[k] + 0.0
    if history in ('shared-operand-attr', 'shared-operand-item'):
        # every series was set from one and the same array object after construction (a common way of giving several
        # variables the same starting values): the model must keep its own copy per variable
        shared = np.array(data[ref.names[0]], dtype=float)
        data = {k: shared.copy() for k in data}
        m = M(range(origin, origin + n))
        for k in data:
            if history == 'shared-operand-attr' and k.isidentifier() and not k.startswith('_'):
                setattr(m, k, shared)
            else:
                m[k] = shared
        return m, data
    if history in ('reindexed-shorter', 'reindexed-longer'):
        # the object has a past: it was solved on a span of another length and then reindexed to this one; afterwards
        # every series (and the solution record) is put back to the fresh state by whole-series assignment
        n0 = n + 2 if history == 'reindexed-shorter' else max(M.LAGS + M.LEADS + 1, n - 1)
        old = M(range(origin - 1, origin - 1 + n0), **{k: np.resize(v, n0).astype(float) for k, v in data.items()})
        R.quiet_call(attempt, old.solve, max_iter=2, failures='ignore', errors='ignore')
        m = old.reindex(range(origin, origin + n))
        for k, v in data.items():
            m[k] = [float(x) for x in v]
        m.status = '-'
        m.iterations = -1
        return m, data
    return M(range(origin, origin + n), **{k: v.copy() for k, v in data.items()}), data


def assigned_cells(ref, T):
    return {(ref.write(st)[0], T + ref.write(st)[1]) for _, st in ref.equations}


def compare_frame(res, key, m, data, ref, n, allowed_cells, allowed_periods, detail):
    """Only `allowed_cells` (endogenous) and status/iterations at `allowed_periods` may differ from the initial state."""
    for name in ref.names:
        a, b = np.asarray(m.__dict__['_' + name]), data[name]      # (the series as stored)
        for i in range(n):
            if not same_value(a[i], b[i]) and (name, i) not in allowed_cells:
                kind = ('endogenous' if name in ref.endogenous else 'exogenous' if name in ref.exogenous else 'parameter-or-error')
                res.fail(f'{key}/untouched-cell-changed/{kind}', f'{detail}: {name}[{i}] changed from {b[i]} to {a[i]} '
                         f'(cells the equations assign: {sorted(allowed_cells)})')
                return False
    for i in range(n):
        if i not in allowed_periods and (str(m.status[i]) != '-' or int(m.iterations[i]) != -1):
            res.fail(f'{key}/status-or-iterations-changed-elsewhere', f'{detail}: status {list(m.status)} iterations {list(m.iterations)}; '
                     f'only periods {sorted(allowed_periods)} were solved')
            return False
    return True


def check_solve_t(case):
    made = attempt(build, case['prog'])
    res = Result(classes=['solve_t'])
    if not made.ok:
        res.tag('skipped:not-built')
        return res
    ref, text, M = made.value
    if ref.reject or ref.function_variable_clash:
        res.tag('skipped:reject-class')
        return res
    L, K = M.LAGS, M.LEADS
    n = L + K + 1 + case.get('extra', 0)
    bases = case.get('bases') or [[1.0, 2.0, 0.5, 4.0]]
    m0, _ = fresh(M, ref, n, bases)
    positions = [(t, 'int') for t in list(range(n)) + list(range(-n, 0))]
    # the same positions as NumPy integers (what np.arange / np.flatnonzero hand out), at the ends of the span
    positions += [(t, 'np.int64') for t in (0, L - 1, L, n - 1 - K, n - K, n - 1, -1, -n) if -n <= t < n]
    # ... and on an object whose statuses already say "solved" everywhere (as after reindexing a solved model)
    positions += [(t, 'status-solved') for t in (0, L - 1, n - K, n - 1, -1, -n) if -n <= t < n]
    for t, ttype in positions:
        T = t + n if t < 0 else t
        feasible = L <= T <= n - 1 - K
        m, data = fresh(M, ref, n, bases, history=case.get('history'))
        if ttype == 'status-solved':
            m.status = '.'
            m.iterations = 1
        log = []
        install(m, ref.names, log)
        out = R.quiet_call(attempt, m.solve_t, np.int64(t) if ttype == 'np.int64' else t, **SOLVE_KW)
        uninstall(m, ref.names)
        detail = f'{text!r} LAGS={L} LEADS={K} n={n} t={ttype}({t}) (position {T})'
        edge = T in (L, n - 1 - K) or not feasible
        if L + K >= 1 and edge:
            res.nontrivial = True
        side = 'front' if T < L else 'back'
        if ttype == 'status-solved' and feasible:
            continue
        if not feasible:
            res.tag('infeasible-' + side)
            if out.ok:
                res.fail(f'infeasible-period-served/{side}/{"negative" if t < 0 else "positive"}-spelling' + ('' if ttype == 'int' else '/' + ttype),
                         f'{detail}: solve_t returned {out.value!r} although the period cannot accommodate the lags/leads')
                return res
            continue
        # frame: only assigned cells at T, status/iterations at T
        if not compare_frame(res, 'solve_t', m, data, ref, n, assigned_cells(ref, T), {T}, detail):
            return res
        # reads: exactly at T+offset of a term of the script, inside the span
        wanted = set()
        for _, st in ref.equations:
            for nm, off in ref.reads(st):
                wanted.add((nm, T + off))
            wanted.add((ref.write(st)[0], T + ref.write(st)[1]))
        for nm, raw, rw in log:
            if not isinstance(raw, int):
                continue
            pos = raw + n if raw < 0 else raw
            if not 0 <= pos < n or (nm, pos) not in wanted:
                if rw == 'r' and nm in ref.endogenous and (nm, pos) == (nm, T) or (nm, pos) in {(e, T) for e in ref.endogenous}:
                    continue    # the solver itself reads the check values at T
                if rw == 'w' and nm in ref.endogenous and pos == T:
                    continue
                res.fail(f'reads/{"outside-span" if not 0 <= pos < n else "unexpected-cell"}',
                         f'{detail}: {"read" if rw == "r" else "write"} of {nm}[{raw}] (position {pos}); the script addresses {sorted(wanted)}')
                return res
        # padded twin
        if out.ok:
            np_ = n + L + K
            twin_data = {}
            for k_, v in data.items():
                padded = np.full(np_, 1.0e6 + 7.0)
                padded[L:L + n] = v
                twin_data[k_] = padded
            tw = M(range(np_), **twin_data)
            tout = R.quiet_call(attempt, tw.solve_t, T + L, **SOLVE_KW)
            if tout.ok:
                for nm in ref.endogenous:
                    if not same_array(np.asarray(m[nm]), np.asarray(tw[nm])[L:L + n]):
                        res.fail('padded-twin/values-differ', f'{detail}: {nm} = {np.asarray(m[nm]).tolist()}, on the padded span '
                                 f'{np.asarray(tw[nm])[L:L + n].tolist()}')
                        return res
    return res


def check_solve_range(case):
    made = attempt(build, case['prog'])
    res = Result(classes=['solve'])
    if not made.ok:
        res.tag('skipped:not-built')
        return res
    ref, text, M = made.value
    if ref.reject or ref.function_variable_clash:
        return res
    L, K = M.LAGS, M.LEADS
    n = L + K + 1 + case.get('extra', 1)
    bases = case.get('bases') or [[1.0, 2.0, 0.5, 4.0]]
    res.nontrivial = L + K >= 1
    origin = case.get('origin', 100)      # labels origin..origin+n-1: 0 and negative labels are ordinary period labels
    if origin <= 0:
        res.tag('span-with-label-0')
    variant = RANGE_VARIANTS[case.get('variant', 0) % len(RANGE_VARIANTS)]
    for p0 in [None] + list(range(n)):
        for p1 in [None] + list(range(n)):
            m, data = fresh(M, ref, n, bases, origin=origin)
            kw = dict(SOLVE_KW, **variant)
            if p0 is not None:
                kw['start'] = origin + p0
            if p1 is not None:
                kw['end'] = origin + p1
            out = R.quiet_call(attempt, m.solve, **kw)
            detail = (f'{text!r} LAGS={L} LEADS={K} n={n} span from {origin}: solve(start={None if p0 is None else origin + p0}, '
                      f'end={None if p1 is None else origin + p1}, {variant})')
            if not range_outcome(res, 'solve', m, data, ref, n, L, K, p0, p1, out, detail, offset=variant.get('offset', 0)):
                return res
    return res


RANGE_VARIANTS = [{}, {'offset': -1}, {'offset': 1}, {'max_iter': 0}, {'max_iter': 0, 'offset': -1}]


def range_outcome(res, key, m, data, ref, n, L, K, p0, p1, out, detail, offset=0):
    """solve(start, end) on either engine: the periods in order; an explicitly requested period that cannot accommodate the
    lags/leads (or whose offset source lies outside the span) must be refused when it is reached, before anything is written
    for it (the periods in front of it may have been solved)."""
    a = L if p0 is None else p0
    b = n - 1 - K if p1 is None else p1
    requested = list(range(a, b + 1))
    infeasible = [T for T in requested if not L <= T <= n - 1 - K or not 0 <= T + offset < n]
    periods = set(requested) if not infeasible else set(range(a, infeasible[0]))
    cells = set()
    for T in periods:
        cells |= assigned_cells(ref, T)
        if offset:
            cells |= {(e, T) for e in ref.endogenous}        # the copy from t+offset precedes the first pass
    if infeasible:
        bad = infeasible[0]
        why = 'infeasible-period' if not L <= bad <= n - 1 - K else 'offset-source-outside-span'
        res.tag('range-with-' + why)
        res.nontrivial = True
        if out.ok:
            side = 'front' if bad < L or bad + offset < 0 else 'back'
            res.fail(f'{key}/{why}-served/{side}', f'{detail}: returned {out.value!r} although period position {bad} cannot be solved')
            return False
        if bad == a and not isinstance(out.exc, IndexError):
            # (when feasible periods come first, one of them may legitimately have raised something else before)
            res.fail(f'{key}/{why}/not-IndexError', f'{detail}: {out!r}')
            return False
        return compare_frame(res, f'{key}-{why}', m, data, ref, n, cells, periods, detail)
    if out.ok:
        if list(out.value[1]) != sorted(periods):
            res.fail(f'{key}/periods-visited', f'{detail}: visited {list(out.value[1])}, expected {sorted(periods)}')
            return False
        return compare_frame(res, key, m, data, ref, n, cells, periods, detail)
    # a raising period: everything outside the requested range must still be untouched
    return compare_frame(res, f'{key}-raised', m, data, ref, n, cells, periods, detail)


def check_rejected(case):
    made = attempt(build, case['prog'])
    res = Result(classes=['rejected-calls'])
    if not made.ok:
        res.tag('skipped:not-built')
        return res
    ref, text, M = made.value
    if ref.reject or ref.function_variable_clash or not ref.endogenous:
        return res
    L, K = M.LAGS, M.LEADS
    n = L + K + 3
    T = L + 1
    bases = case.get('bases') or [[1.0, 2.0, 0.5, 4.0]]
    res.nontrivial = True
    rep = Rep(case.get('rep'))      # the same option values as NumPy scalars etc.
    kinds = [('min>max', {'min_iter': 3, 'max_iter': 2}, None), ('min>max+offset', {'min_iter': 3, 'max_iter': 2, 'offset': -1}, None),
             ('offset-before', {'offset': -(T + 1)}, None), ('offset-beyond', {'offset': n - T}, None),
             ('preexisting-nan', {}, 0), ('preexisting-inf', {}, 0), ('preexisting-through-offset', {'offset': 1}, 1)]
    for kind, opts, nan_at in kinds:
        for t in (T, T - n):
            m, data = fresh(M, ref, n, bases)
            if nan_at is not None:
                bad = float('inf') if 'inf' in kind else float('nan')
                victim = ref.endogenous[case.get('victim', 0) % len(ref.endogenous)]
                m[victim][T + nan_at] = bad
                data[victim][T + nan_at] = bad
            out = R.quiet_call(attempt, m.solve_t, rep.int(t), **rep.opts(opts))
            detail = f'{text!r} n={n} t={t} {kind} opts={opts} (representation tape {case.get("rep")})'
            want = {'min>max': ValueError, 'min>max+offset': ValueError, 'offset-before': IndexError, 'offset-beyond': IndexError}.get(kind)
            if want is None:
                from fsic.exceptions import SolutionError
                want = SolutionError
            if out.ok or not isinstance(out.exc, want):
                # a pre-existing value in a variable that is not a check variable cannot be detected: every endogenous is
                res.fail(f'rejected/{kind}/not-{want.__name__}', f'{detail}: {out!r}')
                continue
            allowed = set()
            if kind == 'preexisting-through-offset':
                allowed = {(e, T) for e in ref.endogenous}
                for e in ref.endogenous:
                    if not same_value(np.asarray(m[e])[T], data[e][T + 1]) and not same_value(np.asarray(m[e])[T], data[e][T]):
                        res.fail('rejected/preexisting-through-offset/cell-not-from-offset', f'{detail}: {e}[{T}] = {np.asarray(m[e])[T]}')
            compare_frame(res, f'rejected/{kind}', m, data, ref, n, allowed, set(), detail)
    return res


def check_fortran(case):
    """Thorough tier: the infeasible-period and untouched-cells clauses on the Fortran engine (ctypes shim)."""
    from . import c07
    res = Result(classes=['fortran-engine'])
    built = attempt(c07.compile_program, case['prog'])
    if not built.ok or built.value[0] != 'ok':
        res.tag('skipped:not-compiled')
        return res
    _, text, Py, F, _ = built.value
    ref = G.Reference(case['prog'])
    L, K = Py.LAGS, Py.LEADS
    n = L + K + 1 + case.get('extra', 0)
    res.nontrivial = L + K >= 1
    for t in list(range(n)) + list(range(-n, 0)):
        T = t + n if t < 0 else t
        feasible = L <= T <= n - 1 - K
        data = R.make_data(ref.names, n, case.get('bases') or [[1.0, 2.0, 0.5, 4.0]])
        for k in data:
            data[k] = np.abs(data[k]) % 3.0 + 0.5
        m = F(range(100, 100 + n), **{k: v.copy() for k, v in data.items()})
        out = R.quiet_call(attempt, m.solve_t, t, **SOLVE_KW)
        detail = f'[Fortran engine] {text!r} LAGS={L} LEADS={K} n={n} t={t} (position {T})'
        if not feasible:
            if out.ok:
                res.fail(f'fortran/infeasible-period-served/{"front" if T < L else "back"}', f'{detail}: returned {out.value!r}')
                return res
            compare_frame(res, 'fortran/infeasible-period', m, data, ref, n, set(), set(), detail)
            continue
        if not compare_frame(res, 'fortran/solve_t', m, data, ref, n, assigned_cells(ref, T), {T}, detail):
            return res
    # solve(start, end), every pair of positions (the wrapper hands the whole range to the compiled loop)
    for variant, p0, p1 in itertools.product(RANGE_VARIANTS, [None] + list(range(n)), [None] + list(range(n))):
        if True:
            data = R.make_data(ref.names, n, case.get('bases') or [[1.0, 2.0, 0.5, 4.0]])
            for k in data:
                data[k] = np.abs(data[k]) % 3.0 + 0.5
            m = F(range(100, 100 + n), **{k: v.copy() for k, v in data.items()})
            kw = dict(SOLVE_KW, **variant)
            if p0 is not None:
                kw['start'] = 100 + p0
            if p1 is not None:
                kw['end'] = 100 + p1
            out = R.quiet_call(attempt, m.solve, **kw)
            detail = f'[Fortran engine] {text!r} LAGS={L} LEADS={K} n={n}: solve(start={kw.get("start")}, end={kw.get("end")}, {variant})'
            if not range_outcome(res, 'fortran/solve', m, data, ref, n, L, K, p0, p1, out, detail, offset=variant.get('offset', 0)):
                return res
    return res


def strat_fortran():
    from hypothesis import strategies as st
    from . import c07
    return st.fixed_dictionaries({'prog': c07.restricted_programs(max_statements=2, max_leaves=4), 'extra': st.integers(0, 2)})


def strategy(**kw):
    from hypothesis import strategies as st

    def make():
        args = dict(max_statements=3, max_leaves=5, named_periods=False, verbatim=False, blocks=False,
                    big_offsets=False, max_offset=3)
        args.update(kw)
        return st.fixed_dictionaries({
            'prog': G.programs(**args),
            'extra': st.integers(0, 4), 'variant': st.integers(0, 4),
            'victim': st.integers(0, 2), 'origin': st.sampled_from([100, 0, 0, -1, -2]), 'rep': tapes(),
            'history': st.sampled_from([None, None, None, 'reindexed-shorter', 'reindexed-longer', 'shared-operand-attr', 'shared-operand-item']),
            'bases': st.lists(st.lists(st.sampled_from([1.0, 2.0, 0.5, 4.0, 3.0, 0.25, 1.5]), min_size=2, max_size=4), min_size=1, max_size=3),
        })
    return make


def gen_enumerated(max_nodes):
    def gen():
        for i, prog in enumerate(G.enumerate_programs(max_nodes)):
            yield {'prog': prog, 'extra': i % 3}
            if i % 7 == 3:
                yield {'prog': prog, 'extra': i % 3, 'history': ('reindexed-shorter', 'reindexed-longer')[(i // 7) % 2]}
            if i % 7 == 5:
                yield {'prog': prog, 'extra': i % 3, 'history': ('shared-operand-attr', 'shared-operand-item')[(i // 7) % 2]}
    return gen


def selfcheck():
    G.selfcheck()


def phases(tier):
    quick = tier == 'quick'
    extra = [Phase('fortran-engine', check_fortran, strategy=strat_fortran, examples=64 if quick else 400, native=True)]
    return extra + [
        Phase('positions-enumerated', check_solve_t, gen=gen_enumerated(3 if quick else 4), exhaustive=True),
        Phase('positions', check_solve_t, strategy=strategy(), examples=1200 if quick else 12000),
        Phase('solve-ranges', check_solve_range, strategy=strategy(max_statements=2), examples=400 if quick else 5000),
        Phase('rejected-calls', check_rejected, strategy=strategy(max_statements=2), examples=800 if quick else 6000),
    ]
