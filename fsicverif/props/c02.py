"""C02 - per-period solve: status, iteration count, result flag and convergence agree."""
import itertools

import numpy as np

from .. import env  # noqa: F401
from ..core import Phase, Result
from .. import grammar as G
from .. import reference as R
from .. import refsolver, scripted, snapshot, spans
from .. import solvecheck as SC
from ..represent import Rep, tapes, with_rep
from ..util import attempt

import fsic

ID = 'C02'
TITLE = 'Per-period solve: status, iteration count, result flag and convergence agree'
LEVEL = 'exploration'
DESIGN_REF = 'DESIGN.md section 5, C02; 4.4, 4.5'
RULE = (
    'scripted models replay every sequence of per-pass outcomes {same, move tol/2, move tol, move 2tol} (1-2 check '
    'variables, per-variable outcomes) up to max_iter passes x min_iter in 0..max_iter+1 x max_iter in 0..bound x tol in '
    '{0.5, 2^-20, 1.0} x failures x catch_first_error x positive/negative period spelling x solve_t/solve_period, '
    'enumerated exhaustively; offsets {0,+-1,+-2,out of span} x every position; plus Hypothesis-generated linear '
    'equation systems (contractive, divergent, oscillating) from grammar G. Oracle: a reference state machine written '
    'from the statement (status, iterations, return value, exception type, number of passes and the iteration number '
    'each received, hook call counts and order, offset copy, every value; ValueError/IndexError leave the full '
    'snapshot unchanged). Non-trivial: the sequence contains a move and the run ends on a boundary (k = min_iter, '
    'k = max_iter, max_iter = 0, or a pass that moved by exactly tol). Distinct = distinct case JSON.'
)
ASSUMPTIONS = ['dyadic tolerances and moves make "moved by exactly tol" exact in binary floating point',
               'scripted models have LAGS = LEADS = 0; generated programs are solved at feasible periods only']
TECHNIQUE = 'exhaustive enumeration of an option lattice x outcome sequences on scripted models against a reference state machine; Hypothesis-generated equation systems'
LEVEL_TEXT = ('The solver is driven through every outcome sequence up to a bound at every lattice point and compared with a '
              '30-line reference machine; this is the right level because the defects of interest are off-by-one at lattice corners.')
LEVEL_NOTE = 'Trusted: the reference machine (refsolver.py), the scripted model wrapper. Not covered: sequences longer than the bound.'

check_scripted = SC.check_scripted


def gen_lattice(max_bound, two_var_bound):
    TOKS = lambda tol: ['same', ['move', tol / 2], ['move', tol], ['move', 2 * tol]]  # noqa: E731

    def gen():
        for max_iter in range(0, max_bound + 1):
            for tol in (0.5, 2.0 ** -20, 1.0):
                toks = TOKS(tol)
                for seq in itertools.product(range(4), repeat=max_iter):
                    script = {f'1:{k + 1}': [['A', toks[i]]] for k, i in enumerate(seq) if i}
                    for min_iter in range(0, max_iter + 2):
                        for failures in ('raise', 'ignore'):
                            for j, cfe in enumerate((True, False)):
                                # spelling and entry point are cycled rather than crossed
                                neg = (len(seq) + min_iter + j) % 2
                                entry = 'solve_period' if (sum(seq) + min_iter) % 3 == 0 else 'solve_t'
                                t = -2 if neg else 1
                                sc = script if not neg else script   # scripts are keyed by normalised position
                                yield {'nvars': 1, 'n': 3, 't': t, 'entry': entry, 'script': sc,
                                       'opts': {'min_iter': min_iter, 'max_iter': max_iter, 'tol': tol,
                                                'failures': failures, 'catch_first_error': cfe}}
        # two check variables with per-variable outcomes (all vs any)
        for max_iter in range(1, two_var_bound + 1):
            tol = 0.5
            toks = TOKS(tol)
            for seq in itertools.product(range(4), repeat=2 * max_iter):
                script = {}
                for k in range(max_iter):
                    pair = [['A', toks[seq[2 * k]]], ['B', toks[seq[2 * k + 1]]]]
                    pair = [p for p in pair if p[1] != 'same']
                    if pair:
                        script[f'0:{k + 1}'] = pair
                for min_iter in (0, max_iter):
                    for check in (None, ['A'], ['B'], []):        # ([]: a model without convergence-check variables)
                        yield {'nvars': 2, 'n': 2, 't': 0, 'script': script, 'check': check,
                               'opts': {'min_iter': min_iter, 'max_iter': max_iter, 'tol': tol, 'failures': 'ignore'}}
        # offsets at every position
        for n in (1, 2, 4):
            for t in list(range(n)) + list(range(-n, 0)):
                for offset in (0, 1, -1, 2, -2, n, -n):
                    for seq in ((), (1,), (3, 0)):
                        T = t + n if t < 0 else t
                        script = {f'{T}:{k + 1}': [['A', TOKS(0.5)[i]]] for k, i in enumerate(seq) if i}
                        # (the copy concerns every endogenous variable, whichever of them are convergence-check variables)
                        for check in (None, ['A'], ['B'], []):
                            case = {'nvars': 2, 'n': n, 't': t, 'script': script,
                                    'init': {'A': [10.0 * (i + 1) for i in range(n)], 'B': [0.5 * i for i in range(n)],
                                             'X': [7.0 + i for i in range(n)]},
                                    'opts': {'min_iter': 0, 'max_iter': 3, 'tol': 0.5, 'offset': offset, 'failures': 'ignore'}}
                            if check is not None:
                                case['check'] = check
                            yield case
        # no check variables at all: the first pass that may be judged converges, whatever moves
        for max_iter in range(0, 4):
            for min_iter in range(0, max_iter + 2):
                for failures in ('raise', 'ignore'):
                    for moves in (0, 1, 3):
                        script = {f'1:{k + 1}': [['A', ['move', 1.0]]] for k in range(moves)}
                        yield {'nvars': 1, 'n': 3, 't': 1 if (min_iter + moves) % 2 else -2, 'check': [], 'script': script,
                               'opts': {'min_iter': min_iter, 'max_iter': max_iter, 'tol': 0.5, 'failures': failures}}
        # long runs: the variable moves for j passes and then stands still (iteration counts beyond the exhaustive bound)
        for j in (5, 9, 10, 11, 17, 30):
            script = {f'1:{k + 1}': [['A', ['move', 1.0]]] for k in range(j)}
            for max_iter in (j - 1, j, j + 1, j + 2, 100):
                for min_iter in (0, j, j + 1, j + 2, max_iter):
                    for tol in (0.5, 0.0, 1.0, 2.0):
                        yield {'nvars': 1, 'n': 3, 't': 1, 'script': script,
                               'opts': {'min_iter': min_iter, 'max_iter': max_iter, 'tol': tol, 'failures': 'ignore'}}
        # mixed dtypes: the model's default dtype cannot represent the moves of a float64 check variable added later
        for mixed, step in (('int', 0.25), ('int', 0.5), ('float32', 2.0 ** -30), ('float32', 0.25)):
            for moves in (1, 3, 5):
                script = {f'1:{k + 1}': [['R', ['move', step]]] for k in range(moves)}
                for max_iter in (moves, moves + 1, moves + 3):
                    yield {'nvars': 1, 'n': 3, 't': 1, 'mixed': mixed, 'script': script,
                           'init': {'A': [1.0, 1.0, 1.0], 'X': [0.0, 0.0, 0.0], 'R': [1.0, 1.0, 1.0]},
                           'opts': {'min_iter': 0, 'max_iter': max_iter, 'tol': step / 2, 'failures': 'ignore'}}
        # passes that rebind the series (whole-series list assignment inside _evaluate) instead of writing in place
        for max_iter in (1, 2, 3, 4):
            for seq in itertools.product(range(3), repeat=max_iter):
                script = {f'1:{k + 1}': [['A', ['rebind', [0.0, 0.5, 1.0][i]]]] for k, i in enumerate(seq)}
                for min_iter in (0, 2):
                    if min_iter <= max_iter:
                        yield {'nvars': 1, 'n': 3, 't': 1, 'script': script,
                               'opts': {'min_iter': min_iter, 'max_iter': max_iter, 'tol': 0.5, 'failures': 'ignore'}}
                        yield {'nvars': 2, 'n': 3, 't': -2, 'script': {k: [['B', v[0][1]]] for k, v in script.items()},
                               'opts': {'min_iter': min_iter, 'max_iter': max_iter, 'tol': 1.0, 'failures': 'raise'}}
        # hooks that raise, min_iter > max_iter with offsets (rejected before anything changes)
        for hook in ({'before': 'KeyError'}, {'after': 'ZeroDivisionError'}, {'before': 'ValueError', 'after': 'KeyError'}):
            for max_iter in (0, 1, 2):
                for failures in ('raise', 'ignore'):
                    yield {'nvars': 1, 'n': 2, 't': 1, 'hooks': hook, 'script': {'1:1': [['A', ['move', 2.0]]]},
                           'opts': {'min_iter': 0, 'max_iter': max_iter, 'tol': 0.5, 'failures': failures}}
        for offset in (0, 1, -1, 5):
            yield {'nvars': 1, 'n': 3, 't': 1, 'opts': {'min_iter': 3, 'max_iter': 2, 'tol': 0.5, 'offset': offset}}
    return gen


# -- generated equation systems ---------------------------------------------------------------------


def check_system(case):
    """Linear two-equation system Y = a*Z + c, Z = b*Y + d (+ optional lag) from grammar G against the machine."""
    a, b, c, d = case['coef']
    # (the two variables may carry the names of methods / properties of the model class: ordinary names for a script)
    NY, NZ = case.get('names') or ['Y', 'Z']
    prog = [
        ['assign', ['var', NY, 'v', None], ['bin', '+', ['bin', '*', ['var', 'a', 'p', None], ['var', NZ, 'v', None]],
                                             ['var', 'c', 'p', None]]],
        ['assign', ['var', NZ, 'v', None], ['bin', '+', ['bin', '*', ['var', 'b', 'p', None],
                                                          ['var', NY, 'v', -1 if case.get('lagged') else None]],
                                             ['var', 'd', 'p', None]]],
    ]
    ref = G.Reference(prog)
    text, _ = G.render_program(prog, [])
    M = fsic.build_model(fsic.parse_model(text))
    n = 4
    t = case['t']
    T = t + n if t < 0 else t
    res = Result(classes=['system', 'system:' + ('contractive' if abs(a * b) < 1 else 'divergent') +
                          ('-oscillating' if a * b < 0 else '')])
    if T < ref.lags:
        return res
    init = {NY: [1.0] * n, NZ: [0.5] * n, 'a': [a] * n, 'b': [b] * n, 'c': [c] * n, 'd': [d] * n}
    m = M(range(n), **{k: np.array(v) for k, v in init.items()})
    opts = dict(case['opts'])
    rep = Rep(case.get('rep'))
    got = attempt(m.solve_t, rep.int(t), **rep.opts(opts))
    rep.tag(res)
    st = SC.ref_state(init, n)
    want = refsolver.solve_t(st, t, n, check=ref.endogenous, endogenous=ref.endogenous,
                             evaluate=SC.ref_program_evaluate(ref, list(range(n))), **opts)
    detail = f'{text!r} coef={case["coef"]} t={t} {SC.opts_text(opts)}'
    SC.compare_outcome(res, 'system', got, want, detail)
    if want.exc not in ('ValueError', 'IndexError'):
        SC.compare_states(res, 'system', m, st, ref.names, detail)
    k = st['iterations'][T]
    res.nontrivial = k >= 2 or want.exc is not None
    return res


def strat_system():
    from hypothesis import strategies as st
    coef = st.sampled_from([0.5, -0.5, 0.25, 0.9, -0.9, 1.0, -1.0, 1.5, -2.0, 0.0, 0.125])
    return st.fixed_dictionaries({
        'coef': st.tuples(coef, coef, st.sampled_from([0.0, 1.0, -3.0]), st.sampled_from([0.0, 2.0])).map(list),
        'lagged': st.booleans(),
        'names': st.sampled_from([None, None, None, ['size', 'values'], ['copy', 'nbytes'], ['solve', 'eval'], ['values', 'size']]),
        't': st.sampled_from([1, 2, 3, -1, -2]),
        'opts': st.fixed_dictionaries({
            'min_iter': st.integers(0, 3), 'max_iter': st.sampled_from([3, 5, 8, 30, 60]),
            'tol': st.sampled_from([1e-6, 0.5, 2.0 ** -10, 1e-10]), 'failures': st.sampled_from(['raise', 'ignore']),
            'errors': st.sampled_from(['raise', 'ignore']),
        }),
        'rep': tapes(),
    })


def phases(tier):
    quick = tier == 'quick'
    return [
        Phase('lattice', check_scripted, gen=SC.with_history(with_rep(gen_lattice(4 if quick else 7, 2 if quick else 3))), exhaustive=True),
        Phase('equation-systems', check_system, strategy=strat_system, examples=1500 if quick else 40000),
    ]
