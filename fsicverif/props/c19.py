"""C19 - tabular export and import are faithful round trips."""
import numpy as np

from .. import env  # noqa: F401
from ..core import Phase, Result
from .. import grammar as G
from .. import spans
from ..represent import Rep, tapes
from ..util import attempt, same_array, same_value

import fsic
from fsic import tools

ID = 'C19'
TITLE = 'Tabular export and import are faithful round trips'
LEVEL = 'exploration'
DESIGN_REF = 'DESIGN.md section 5, C19'
RULE = (
    'models built from Hypothesis-generated programs of grammar G with extra variables of dtype int / bool / str / float and '
    'underscore-prefixed names, unsolved / partly solved / solved, over the span catalogue (lengths up to 5); all eight flag '
    'combinations (status, iterations, include_internal) through to_dataframe and tools.model_to_dataframe; linkers with 0-3 '
    'submodels through to_dataframes / linker_to_dataframes; from_dataframe on the exported data columns; and every symbol '
    'list the parser produces for programs of G (functions, keywords, fenced verbatim blocks whose name / lags / leads are '
    'None, exogenous symbols without equation) through symbols_to_dataframe -> dataframe_to_symbols. Oracle: frame index = '
    'span element-wise, columns = expected names in model order (+ status, iterations when requested; underscore names iff '
    'requested), column values = the series exactly, numeric and boolean dtypes preserved; one table per submodel id plus '
    'the linker name; from_dataframe reproduces list(span) and every value in series that are writeable and not views of the table; the symbol round trip returns a list equal to '
    'Expected column values are read from the object\'s storage; flags at their documented default are also left out; a table '
    'exported earlier does not change when the model is changed in place afterwards; the empty symbol list round-trips. '
    'the original (tuple equality, None stays None, ints stay int). Non-trivial: the model has a non-float or underscore '
    'variable, or a non-range span; the symbol list contains a None field. Distinct = distinct case JSON.'
)
ASSUMPTIONS = ['pandas 3 string columns compare equal to the str series element-wise; the str column dtype itself is not asserted']
TECHNIQUE = 'round-trip and reference-comparison on Hypothesis-generated models, flags, spans and symbol lists'
LEVEL_TEXT = ('Generated models / linkers / symbol lists are exported and re-imported; tables are compared cell by cell with the '
              'objects, round trips with the originals.')
LEVEL_NOTE = 'Trusted: pandas. Not covered: MultiIndex spans; DataFrames edited between export and import.'

EXTRAS = [('K', 'int'), ('_hidden', 'float'), ('flag', 'bool'), ('label', 'str'), ('_n', 'int'), ('W', 'float'),
          # internal names whose non-underscore twin is a variable too (storage of `K` lives under `_K`)
          ('_K', 'float'), ('_W', 'bool'), ('_flag', 'int'),
          # internal series of a dtype that NumPy cannot stack with floats without changing them
          ('_tag', 'str'), ('_label', 'str')]


def build_model(case):
    prog = case['prog']
    text, _ = G.render_program(prog, [])
    symbols = fsic.parse_model(text)
    M = fsic.build_model(symbols)
    desc = case['span']
    span = spans.build(desc)
    n = len(span)
    m = M(span, **{nm: np.arange(1.0, n + 1) * (i + 1) for i, nm in enumerate(M.NAMES)})
    if case.get('export_first'):
        # the object was exported once before it got its additional variables
        attempt(m.to_dataframe)
        attempt(tools.model_to_dataframe, m, include_internal=False)
        attempt(tools.model_to_dataframe, m, include_internal=True)
    for j in case.get('extras') or []:
        nm, dt = EXTRAS[j % len(EXTRAS)]
        if nm in m.index:
            continue
        if dt == 'int':
            m.add_variable(nm, list(range(n)), dtype=int)
        elif dt == 'bool':
            m.add_variable(nm, [i % 2 == 0 for i in range(n)] if n else True, dtype=bool)
        elif dt == 'str':
            m.add_variable(nm, ['s%d' % i for i in range(n)] if n else 'x', dtype=str)
        else:
            m.add_variable(nm, np.arange(n) * 0.5, dtype=float)
    solved = case.get('solved', 0)
    if solved and n > M.LAGS + M.LEADS:
        kw = {'max_iter': 5, 'failures': 'ignore', 'errors': 'ignore'}
        if solved == 1:
            kw['end'] = span[M.LAGS]
        attempt(m.solve, **kw)
    return m, M, symbols


EXPORT_DEFAULTS = {'status': True, 'iterations': True, 'include_internal': False}      # as documented, on every export


def check_table(res, df, obj, labels, flags, detail, where):
    """df must be the export of obj under flags."""
    names = [x for x in obj.names if flags['include_internal'] or not x.startswith('_')]
    want_cols = names + (['status'] if flags['status'] else []) + (['iterations'] if flags['iterations'] else [])
    if list(df.columns) != want_cols:
        missing = [c for c in want_cols if c not in df.columns]
        extra = [c for c in df.columns if c not in want_cols]
        cls = 'internal' if any(c.startswith('_') for c in missing + extra) else 'order-or-set'
        res.fail(f'{where}/columns/{cls}', f'{detail}: columns {list(df.columns)}, expected {want_cols}')
        return
    if len(df.index) != len(labels) or any(spans.pos([a], b) != 0 for a, b in zip(list(df.index), labels)):
        res.fail(f'{where}/index', f'{detail}: index {list(df.index)!r}, span {labels!r}')
        return
    for c in want_cols:
        # (read from the object's storage, not through obj[c]: the item interface is itself code under examination)
        series = np.asarray(obj.__dict__['_' + c])
        col = df[c]
        vals = col.to_numpy()
        if not all(same_value(a, b) for a, b in zip(vals.tolist(), series.tolist())):
            res.fail(f'{where}/values/{series.dtype.kind}', f'{detail}: column {c} = {vals.tolist()}, series {series.tolist()}')
            return
        if series.dtype.kind in 'fiub' and col.dtype != series.dtype:
            res.fail(f'{where}/dtype/{series.dtype.kind}', f'{detail}: column {c} has dtype {col.dtype}, series {series.dtype}')
            return


def check_model(case):
    res = Result(classes=['model', 'span:' + case['span']['k']])
    rep = Rep(case.get('rep'))
    made = attempt(build_model, case)
    if not made.ok:
        res.tag('skipped:model-not-built')
        return res
    m, M, symbols = made.value
    labels = spans.labels(case['span'])
    nonfloat = any(np.asarray(m[nm]).dtype.kind != 'f' or nm.startswith('_') for nm in m.names)
    res.nontrivial = nonfloat or case['span']['k'] != 'range'
    text, _ = G.render_program(case['prog'], [])
    for status in (True, False):
        for iterations in (True, False):
            for internal in (True, False):
                flags = {'status': status, 'iterations': iterations, 'include_internal': internal}
                detail = f'{text!r} span={labels!r} extras={case.get("extras")} solved={case.get("solved")} flags={flags}'
                for where, fn in (('to_dataframe', m.to_dataframe), ('model_to_dataframe', lambda **kw: tools.model_to_dataframe(m, **kw))):
                    # np.bool_ / 0-1 flags mean the same; a flag at its documented default may be left out
                    out = attempt(fn, **rep.flags(flags, EXPORT_DEFAULTS))
                    if not out.ok:
                        res.fail(f'{where}/raised-{out.exc_name}', f'{detail}: {out!r}')
                        return res
                    check_table(res, out.value, m, labels, flags, detail, where)
                    if res.violations:
                        return res
    # defaults: status and iterations on, internal off (every flag left out / only one of them passed)
    for where, fn in (('to_dataframe', m.to_dataframe), ('model_to_dataframe', lambda **kw: tools.model_to_dataframe(m, **kw))):
        for given in ({}, {'status': False}, {'iterations': False}, {'include_internal': True}):
            out = attempt(fn, **given)
            if not out.ok:
                res.fail(f'{where}-defaults/raised-{out.exc_name}', f'{text!r} span={labels!r} {given}: {out!r}')
                return res
            check_table(res, out.value, m, labels, dict(EXPORT_DEFAULTS, **given),
                        f'{text!r} span={labels!r} only {given} passed', where + '-defaults')
    # an exported table is a record of the values at export time: later changes of the model (in place, as a solve makes
    # them) do not reach it
    if labels:
        for where, fn in (('to_dataframe', lambda: m.to_dataframe(include_internal=True)),
                          ('model_to_dataframe', lambda: tools.model_to_dataframe(m, include_internal=True))):
            kept = attempt(fn)
            if not kept.ok:
                continue
            record = kept.value.copy(deep=True)
            saved = {}
            for nm in list(m.names) + ['iterations']:
                arr = m.__dict__['_' + nm]
                if arr.dtype.kind in 'fiub':
                    saved[nm] = arr[0].copy()
                    getattr(m, nm)[0] = (not arr[0]) if arr.dtype.kind == 'b' else arr[0] + 3
            same = kept.value.equals(record)
            for nm, v in saved.items():
                getattr(m, nm)[0] = v
            if saved and not same:
                res.fail(f'{where}/table-follows-later-changes', f'{text!r} span={labels!r}: the table exported earlier changed when '
                         f'the model\'s values were changed afterwards')
                return res
    # import: the data columns of the model's own variables
    df = m.to_dataframe(status=False, iterations=False, include_internal=True)
    data = df[[c for c in M.NAMES]]
    back = attempt(M.from_dataframe, data)
    detail = f'{text!r} span={labels!r}'
    if not back.ok:
        res.fail(f'from_dataframe/raised-{back.exc_name}/{case["span"]["k"]}', f'{detail}: {back!r}')
        return res
    b = back.value
    got = list(b.span)
    if len(got) != len(labels) or any(spans.pos([x], y) != 0 for x, y in zip(got, labels)):
        res.fail(f'from_dataframe/span/{case["span"]["k"]}', f'{detail}: span {got!r}, original {labels!r}')
    for nm in M.NAMES:
        if not same_array(np.asarray(b[nm]), np.asarray(m[nm])):
            res.fail('from_dataframe/values', f'{detail}: {nm} = {np.asarray(b[nm]).tolist()}, original {np.asarray(m[nm]).tolist()}')
            break
    # "constructing a model": the import is a model of its own - every series can be assigned to (as C09's histories do)
    # and none is a view of the table it was read from (added after seeded change C19-t, where pandas' read-only block
    # views became the model's storage)
    for nm in M.NAMES:
        arr = b.__dict__.get('_' + nm)
        if isinstance(arr, np.ndarray) and len(arr):
            if not arr.flags.writeable:
                res.fail('from_dataframe/read-only-series', f'{detail}: series {nm} of the imported model is read-only')
                break
            if nm in data.columns and np.shares_memory(arr, data[nm].values):
                res.fail('from_dataframe/series-is-table-view', f'{detail}: series {nm} of the imported model shares memory with the table')
                break
    # a table with the rows of the span and no data column at all (a model none of whose variables is exported, or a
    # selection of no columns): the span is still reproduced, the variables keep their defaults
    none = attempt(M.from_dataframe, df[[]])
    if not none.ok:
        res.fail(f'from_dataframe/no-columns/raised-{none.exc_name}/{case["span"]["k"]}', f'{detail}: {none!r}')
    else:
        got0 = list(none.value.span)
        if len(got0) != len(labels) or any(spans.pos([x], y) != 0 for x, y in zip(got0, labels)):
            res.fail(f'from_dataframe/no-columns/span/{case["span"]["k"]}', f'{detail}: span {got0!r}, original {labels!r}')
    # the whole table (extra variables included) under strict=True: the import is either refused, or nothing is lost -
    # never a model that silently lacks some of the columns
    extra_cols = [c for c in df.columns if c not in M.NAMES]
    if extra_cols:
        from fsic.exceptions import InitialisationError
        strict_back = attempt(M.from_dataframe, df, strict=True)
        if strict_back.ok:
            lost = [c for c in df.columns if c not in strict_back.value.index
                    or not same_array(np.asarray(strict_back.value[c]), np.asarray(m[c]))]
            if lost:
                res.fail('from_dataframe/strict/columns-lost', f'{detail}: strict import of columns {list(df.columns)} returned a model '
                         f'without the data of {lost}')
        elif not isinstance(strict_back.exc, (InitialisationError, NotImplementedError)):
            # (NotImplementedError: the library's documented refusal when two variable names differ only in case - as in C09)
            res.fail(f'from_dataframe/strict/raised-{strict_back.exc_name}', f'{detail}: {strict_back!r}')
    return res


def check_container(case):
    """A plain VectorContainer exports every variable (there are no flags, no status and no internal/public split)."""
    from fsic.core.containers import VectorContainer
    desc = case['span']
    labels = spans.labels(desc)
    n = len(labels)
    c = VectorContainer(spans.build(desc))
    for j in case.get('extras') or []:
        nm, dt = EXTRAS[j % len(EXTRAS)]
        if nm in c.index:
            continue
        if dt == 'int':
            c.add_variable(nm, list(range(n)), dtype=int)
        elif dt == 'bool':
            c.add_variable(nm, [i % 2 == 0 for i in range(n)] if n else True, dtype=bool)
        elif dt == 'str':
            c.add_variable(nm, ['s%d' % i for i in range(n)] if n else 'x', dtype=str)
        else:
            c.add_variable(nm, np.arange(n) * 0.5, dtype=float)
    res = Result(nontrivial=len(c.index) >= 2, classes=['container', 'span:' + desc['k']])
    detail = f'container span={labels!r} variables={list(c.index)}'
    out = attempt(c.to_dataframe)
    if not out.ok:
        res.fail(f'container/to_dataframe/raised-{out.exc_name}', f'{detail}: {out!r}')
        return res
    df = out.value
    if list(df.columns) != list(c.index):
        res.fail('container/to_dataframe/columns', f'{detail}: columns {list(df.columns)}')
        return res
    if len(c.index) and (len(df.index) != n or any(spans.pos([a], b) != 0 for a, b in zip(list(df.index), labels))):
        res.fail('container/to_dataframe/index', f'{detail}: index {list(df.index)!r}')
        return res
    for nm in c.index:
        series = np.asarray(c.__dict__['_' + nm])      # (from storage, not through the item interface)
        col = df[nm]
        if not all(same_value(a, b) for a, b in zip(col.to_numpy().tolist(), series.tolist())):
            res.fail(f'container/to_dataframe/values/{series.dtype.kind}', f'{detail}: column {nm} = {col.to_numpy().tolist()}, series {series.tolist()}')
        elif series.dtype.kind in 'fiub' and col.dtype != series.dtype:
            res.fail(f'container/to_dataframe/dtype/{series.dtype.kind}', f'{detail}: column {nm} has dtype {col.dtype}, series {series.dtype}')
    return res


def strat_container():
    from hypothesis import strategies as st
    descs = spans.catalogue(4, min_len=0)
    return st.fixed_dictionaries({'span': st.sampled_from(descs),
                                  'extras': st.lists(st.integers(0, len(EXTRAS) - 1), max_size=6)})


def check_linker(case):
    res = Result(nontrivial=True, classes=['linker', f'submodels={len(case["subs"])}'])
    rep = Rep(case.get('rep'))
    desc = case['span']
    labels = spans.labels(desc)
    subs = {}
    for i, sub in enumerate(case['subs']):
        made = attempt(build_model, {'prog': sub['prog'], 'span': desc, 'extras': sub.get('extras'), 'solved': 0})
        if not made.ok:
            res.tag('skipped:model-not-built')
            return res
        subs[sub['id']] = made.value[0]

    class L(fsic.BaseLinker):
        ENDOGENOUS = ['T']
        EXOGENOUS = ['U']
        NAMES = ENDOGENOUS + EXOGENOUS
        CHECK = ENDOGENOUS
    if subs:
        linker = L(subs, name=case.get('name', '_'), T=np.arange(float(len(labels))))
    else:
        linker = L({}, span=spans.build(desc), name=case.get('name', '_'))
    if case.get('export_first'):
        attempt(linker.to_dataframes)
        attempt(linker.to_dataframe, include_internal=False)
    for j in case.get('extras') or []:
        nm, dt = EXTRAS[j % len(EXTRAS)]
        if nm not in linker.index:
            linker.add_variable(nm, 1 if dt == 'int' else True if dt == 'bool' else 'q' if dt == 'str' else 0.5,
                                dtype={'int': int, 'bool': bool, 'str': str, 'float': float}[dt])
    if case.get('solved'):
        attempt(linker.solve, max_iter=3, failures='ignore', errors='ignore')
    for status in (True, False):
        for iterations in (True, False):
            for internal in (True, False):
                flags = {'status': status, 'iterations': iterations, 'include_internal': internal}
                detail = f'linker name={case.get("name", "_")!r} subs={[s["id"] for s in case["subs"]]} span={labels!r} flags={flags}'
                for where, fn in (('to_dataframes', linker.to_dataframes), ('linker_to_dataframes', lambda **kw: tools.linker_to_dataframes(linker, **kw))):
                    # np.bool_ / 0-1 flags mean the same; a flag at its documented default may be left out
                    out = attempt(fn, **rep.flags(flags, EXPORT_DEFAULTS))
                    if not out.ok:
                        res.fail(f'{where}/raised-{out.exc_name}', f'{detail}: {out!r}')
                        return res
                    tables = out.value
                    want_keys = [case.get('name', '_')] + [s['id'] for s in case['subs']]
                    if sorted(map(repr, tables)) != sorted(map(repr, want_keys)):
                        res.fail(f'{where}/table-keys', f'{detail}: tables {list(tables)}, expected {want_keys}')
                        return res
                    check_table(res, tables[case.get('name', '_')], linker, labels, flags, detail + ' [linker table]', where + '/linker')
                    for sid, sm in subs.items():
                        check_table(res, tables[sid], sm, labels, flags, detail + f' [submodel {sid}]', where + '/submodel')
                    if res.violations:
                        return res
    for where, fn in (('to_dataframes', linker.to_dataframes), ('linker_to_dataframes', lambda **kw: tools.linker_to_dataframes(linker, **kw))):
        for given in ({}, {'status': False}, {'iterations': False}, {'include_internal': True}):
            out = attempt(fn, **given)
            detail = f'linker name={case.get("name", "_")!r} subs={[s["id"] for s in case["subs"]]} span={labels!r} only {given} passed'
            if not out.ok:
                res.fail(f'{where}-defaults/raised-{out.exc_name}', f'{detail}: {out!r}')
                return res
            flags = dict(EXPORT_DEFAULTS, **given)
            check_table(res, out.value[case.get('name', '_')], linker, labels, flags, detail + ' [linker table]', where + '-defaults/linker')
            for sid, sm in subs.items():
                check_table(res, out.value[sid], sm, labels, flags, detail + f' [submodel {sid}]', where + '-defaults/submodel')
            if res.violations:
                return res
    return res


def check_symbols(case):
    text, _ = G.render_program(case['prog'], case.get('tape') or [])
    if 'text' in case:
        text = case['text']          # (scripts without any statement)
    parsed = attempt(fsic.parse_model, text)
    res = Result(classes=['symbols'])
    if not parsed.ok:
        res.tag('skipped:parse-rejected')
        return res
    symbols = parsed.value
    has_none = any(s.name is None or s.equation is None or s.lags is None for s in symbols)
    res.nontrivial = has_none
    if not symbols:
        res.tag('empty-symbol-list')      # "all symbol lists the parser can produce": the empty one comes back empty
        res.nontrivial = True
    out = attempt(lambda: tools.dataframe_to_symbols(tools.symbols_to_dataframe(symbols)))
    if not out.ok:
        res.fail(f'symbols/raised-{out.exc_name}', f'{text!r}: {out!r}')
        return res
    back = out.value
    if back != symbols or any(type(a.lags) is not type(b.lags) or type(a.leads) is not type(b.leads) for a, b in zip(back, symbols)):
        bad = next(((a, b) for a, b in zip(back, symbols) if a != b), (back, symbols))
        field = next((f for f in ('name', 'type', 'lags', 'leads', 'equation', 'code')
                      if getattr(bad[0], f, None) != getattr(bad[1], f, None)), 'list') if isinstance(bad[0], tuple) and hasattr(bad[0], '_fields') else 'list'
        kind = 'None-field' if field != 'list' and getattr(bad[1], field) is None else 'value'
        res.fail(f'symbols/round-trip-differs/{field}/{kind}', f'{text!r}: {bad[1]!r} came back as {bad[0]!r}')
    return res


def strat_model():
    from hypothesis import strategies as st
    descs = spans.catalogue(5, min_len=0) + spans.catalogue_long()
    return st.fixed_dictionaries({
        'prog': st.one_of(G.programs(max_statements=3, max_leaves=4, named_periods=False, blocks=False, big_offsets=False, max_offset=2),
                          G.programs(max_statements=3, max_leaves=4, named_periods=False, blocks=False, big_offsets=False, max_offset=2),
                          G.programs(max_statements=3, max_leaves=4, named_periods=False, blocks=False, big_offsets=False, max_offset=2),
                          st.just([])),           # ... and the model without any variable
        'span': st.sampled_from(descs),
        'extras': st.lists(st.integers(0, len(EXTRAS) - 1), max_size=6),
        'solved': st.integers(0, 2),
        'rep': tapes(3),
        'export_first': st.booleans(),
    })


def strat_linker():
    from hypothesis import strategies as st
    descs = [d for d in spans.catalogue(4, min_len=2) if d['k'] in ('range', 'list')]
    prog = G.programs(max_statements=2, max_leaves=3, named_periods=False, blocks=False, big_offsets=False, max_offset=1, calls=False)

    @st.composite
    def cases(draw):
        k = draw(st.integers(0, 3))
        ids = draw(st.permutations(['a', 'b', 7, 'zz']))[:k]
        return {'span': draw(st.sampled_from(descs)),
                'subs': [{'id': i, 'prog': draw(prog), 'extras': draw(st.lists(st.integers(0, len(EXTRAS) - 1), max_size=4))} for i in ids],
                'name': draw(st.sampled_from(['_', 'core', 0])), 'extras': draw(st.lists(st.integers(0, len(EXTRAS) - 1), max_size=4)),
                'solved': draw(st.booleans()), 'rep': draw(tapes(3)), 'export_first': draw(st.booleans())}
    return cases()


def strat_symbols():
    from hypothesis import strategies as st
    block = st.sampled_from([['block', 'pass'], ['block', 'x = 1'], ['block', 'last = self._Y[t]']])

    def with_blocks(prog, extra, where):
        out = list(prog)
        for b, w in zip(extra, where):
            out.insert(w % (len(out) + 1), b)
        return out
    progs = st.tuples(G.programs(max_statements=4, blocks=True, named_periods=True), st.lists(block, max_size=3),
                      st.lists(st.integers(0, 5), min_size=3, max_size=3)).map(lambda x: with_blocks(*x))
    return st.fixed_dictionaries({'prog': progs, 'tape': G.tapes(10)})


def gen_symbols():
    def gen():
        for prog in G.enumerate_programs(3):
            yield {'prog': prog}
        for text in ('', '\n\n', '# only a comment', '   \n# a\n\t\n# b\n'):
            yield {'prog': [], 'text': text}
        yield {'prog': [['block', '']]}
        yield {'prog': [['block', '# note']]}
        yield {'prog': [['block', 'pass']]}
        yield {'prog': [['block', 'pass'], ['block', 'pass']]}
        yield {'prog': [['block', 'x = 1'], ['assign', ['var', 'Y', 'v', None], ['var', 'X', 'v', -1]], ['block', 'x = 1'], ['block', 'x = 1']]}
        yield {'prog': [['block', 'x = 1'], ['assign', ['var', 'Y', 'v', None], ['call', 'max', [['var', 'X', 'v', -1], ['num', '0']]]]]}
        yield {'prog': [['assign', ['var', 'Y', 'v', None], ['if', ['var', 'X', 'v', None], ['var', 'Z', 'v', 1], ['num', '0']]]]}
    return gen


def phases(tier):
    quick = tier == 'quick'
    return [
        Phase('models', check_model, strategy=strat_model, examples=1600 if quick else 20000),
        Phase('containers', check_container, strategy=strat_container, examples=400 if quick else 4000),
        Phase('linkers', check_linker, strategy=strat_linker, examples=600 if quick else 6000),
        Phase('symbol-lists-enumerated', check_symbols, gen=gen_symbols(), exhaustive=True),
        Phase('symbol-lists', check_symbols, strategy=strat_symbols, examples=2500 if quick else 30000),
    ]
