"""C20 - the dependency graph tool reports exactly the dependencies the equations have."""
import re

import numpy as np

from .. import env  # noqa: F401
from ..core import Phase, Result
from .. import grammar as G
from .. import reference as R
from ..recarray import install
from ..util import attempt, same_value

import fsic
from fsic.tools import symbols_to_graph

ID = 'C20'
TITLE = 'Dependency graph tool reports exactly the dependencies the equations have'
LEVEL = 'exploration'
DESIGN_REF = 'DESIGN.md section 5, C20'
RULE = (
    'programs of grammar G without fenced blocks (integer offsets on either side, parameters, errors, calls, '
    'comparisons, conditionals, verbatim fragments). Static oracle: nodes carrying an `equation` attribute = the '
    'left-hand-side terms NAME[t+-k] of the reference, attribute = Symbol.equation, and for each such node the '
    'variable-like predecessors = the reference read set of its statement, exactly. Dynamic oracle: for every '
    '(variable, offset) pair of the one-equation sub-model a cell is perturbed on generated data and the statement '
    're-evaluated: no edge => result unchanged exactly; edge => the recording array saw a read of that cell whenever '
    'the reference evaluator (Python semantics on the generator tree) reads it. Non-trivial: an equation with >= 2 '
    'distinct right-hand-side terms and a non-zero offset or a conditional. Distinct = distinct case JSON.'
)
ASSUMPTIONS = ['named-period indexes are not variable-like nodes (NAME[t+-k]) and are not generated here',
               'short-circuit operators may legitimately skip a read; "actually read" is judged against the reference run']
TECHNIQUE = 'Hypothesis grammar-based generation; reference read-set as static oracle, perturbation + recording arrays as dynamic oracle'
LEVEL_TEXT = ('Generated programs are turned into graphs; edges are compared with the reference read sets and cross-checked '
              'dynamically by perturbing every cell and recording reads.')
LEVEL_NOTE = 'Trusted: networkx, the reference read sets (from the generator tree), recording arrays.'

VARLIKE = re.compile(r'^[A-Za-z_]\w*\[t(?:[+-]\d+)?\]$')


def fmt(name, off):
    if off == 0:
        return f'{name}[t]'
    return f'{name}[t{off:+d}]'


def check_case(case):
    prog = [s for s in case['prog'] if s[0] == 'assign']
    ref = G.Reference(prog)
    feats = G.program_features(prog)
    rich = any(len(ref.reads(st)) >= 2 and (any(o for _, o in ref.reads(st)) or 'keyword-or-comparison' in feats)
               for _, st in ref.equations)
    res = Result(nontrivial=rich, classes=sorted(feats))
    if ref.reject or ref.function_variable_clash:
        res.tag('skipped:reject-class')
        return res
    # (the layout matters here: the normalised equation keeps the script's spacing around `=` and the operators)
    text, _ = G.render_program(prog, G.Tape(case.get('tape'), kinds={'eq-space', 'op-space', 'index-pad', 'explicit0', 'paren-pad'}))
    parsed = attempt(fsic.parse_model, text)
    if not parsed.ok:
        res.tag('skipped:parse-rejected')
        return res
    symbols = parsed.value
    g = attempt(symbols_to_graph, symbols)
    if not g.ok:
        res.fail(f'graph-raised/{g.exc_name}', f'{text!r}: {g!r}')
        return res
    graph = g.value
    eq_nodes = {n: d['equation'] for n, d in graph.nodes(data=True) if 'equation' in d}
    want_nodes = {}
    by_name = {s.name: s for s in symbols}
    for lhs, st in ref.equations:
        want_nodes[fmt(*ref.write(st))] = by_name[lhs].equation
    if set(eq_nodes) != set(want_nodes):
        res.fail('static/equation-nodes', f'{text!r}: nodes with an equation {sorted(eq_nodes)}, expected {sorted(want_nodes)}')
        return res
    for n, e in want_nodes.items():
        if eq_nodes[n] != e:
            res.fail('static/equation-attribute', f'{text!r}: node {n} carries {eq_nodes[n]!r}, symbol has {e!r}')
    for lhs, st in ref.equations:
        node = fmt(*ref.write(st))
        preds = {p for p in graph.predecessors(node) if VARLIKE.match(p)}
        want = {fmt(nm, off) for nm, off in ref.reads(st)}
        if preds != want:
            missing, extra = sorted(want - preds), sorted(preds - want)
            cls = ('missing-self-edge' if node in missing else 'missing-edge') if missing else 'extra-edge'
            res.fail(f'static/{cls}', f'{text!r}: edges into {node} from {sorted(preds)}, the equation reads {sorted(want)}')
    if res.violations:
        return res

    # dynamic cross-check on one-equation sub-models
    bases = case.get('bases') or [[1.0, 2.0, 0.5, 4.0]]
    for lhs, st in ref.equations[:3]:
        sub_ref = G.Reference([st])
        sub_text, _ = G.render_program([st], [])
        built = attempt(lambda: fsic.build_model(fsic.parse_model(sub_text)))
        if not built.ok:
            res.tag('skipped:sub-model-build')
            continue
        M = built.value
        L, K = sub_ref.lags, sub_ref.leads
        n = L + K + 1
        t = L
        data = R.make_data(sub_ref.names, n, bases)
        node = fmt(*sub_ref.write(st))
        preds = {p for p in graph.predecessors(node) if VARLIKE.match(p)}
        wname, woff = sub_ref.write(st)

        def run(perturb=None, route='constructor'):
            vals = {k: v.copy() for k, v in data.items()}
            if perturb and route == 'constructor':
                vals[perturb[0]][t + perturb[1]] += 1.0
            m = M(range(n), **vals)
            if perturb and route == 'item':
                # the same perturbation made afterwards, in place, through the public item interface
                m[perturb[0]][t + perturb[1]] += 1.0
                vals[perturb[0]][t + perturb[1]] += 1.0
            log = []
            install(m, sub_ref.names, log)
            out = R.quiet_call(attempt, m._evaluate, t)
            arrays = {k: v.copy() for k, v in vals.items()}
            rlog = []
            R.quiet_call(attempt, R.ref_evaluate, sub_ref, R.RefNS(arrays, list(range(n)), rlog), t)
            y = np.asarray(m.__dict__['_' + wname])[t + woff]
            reads = {(nm, ix) for nm, ix, rw in log if rw == 'r'}
            rreads = {(nm, ix) for nm, ix, rw in rlog if rw == 'r'}
            return out, y, reads, rreads

        nroute = 0
        base_out, y0, reads0, rreads0 = run()
        if not base_out.ok:
            res.tag('skipped:evaluate-raised')
            continue
        for name in sub_ref.names:
            for k in range(-L, K + 1):
                has_edge = fmt(name, k) in preds
                if has_edge:
                    if (name, t + k) in rreads0 and (name, t + k) not in reads0:
                        res.fail('dynamic/edge-but-not-read', f'{sub_text!r}: edge {fmt(name, k)} -> {node} but the model never '
                                 f'read {name} at t{k:+d} (reads: {sorted(reads0)})')
                    continue
                if (name, k) == (wname, woff):
                    continue   # the assigned cell itself is overwritten
                nroute += 1
                out, y1, _, _ = run((name, k), route=('constructor', 'item')[nroute % 2])
                if out.ok and not same_value(y0, y1):
                    res.fail('dynamic/influence-without-edge', f'{sub_text!r}: no edge {fmt(name, k)} -> {node} but perturbing '
                             f'that cell changes the result from {y0} to {y1}')
    return res


def check_tuple_targets(case):
    """A statement that assigns several variables at once ('A,B = e1,e2'): every left-hand-side term is a node carrying
    the statement's normalised equation, and every right-hand-side term has an edge into every one of them."""
    targets = case['targets']
    exprs = case['exprs']
    res = Result(nontrivial=True, classes=['tuple-targets'])
    lhs = ','.join(targets)
    rhs = ','.join(G.render_expr(e, G.Tape([]), depth=0) for e in exprs)
    text = f'{lhs} = {rhs}'
    parsed = attempt(fsic.parse_model, text)
    if not parsed.ok:
        res.tag('skipped:parse-rejected')
        return res
    g = attempt(symbols_to_graph, parsed.value)
    if not g.ok:
        res.fail(f'graph-raised/{g.exc_name}/tuple-targets', f'{text!r}: {g!r}')
        return res
    graph = g.value
    reads = set()
    for e in exprs:
        for n in G.walk(e):
            if n[0] == 'var' and G.idx_offset(n[3]) is not None:
                reads.add(fmt(n[1], G.idx_offset(n[3])))
    by_name = {s.name: s for s in parsed.value}
    for tname in targets:
        node = fmt(tname, 0)
        if node not in graph or 'equation' not in graph.nodes[node]:
            res.fail('static/equation-nodes/tuple-targets', f'{text!r}: no node with an equation for {node}')
            continue
        if graph.nodes[node]['equation'] != by_name[tname].equation:
            res.fail('static/equation-attribute/tuple-targets', f'{text!r}: node {node} carries {graph.nodes[node]["equation"]!r}')
        preds = {p for p in graph.predecessors(node) if VARLIKE.match(p)}
        if preds != reads:
            res.fail('static/' + ('missing-edge' if reads - preds else 'extra-edge') + '/tuple-targets',
                     f'{text!r}: edges into {node} from {sorted(preds)}, the statement reads {sorted(reads)}')
    return res


def strat_tuple_targets():
    from hypothesis import strategies as st
    leaf = st.tuples(st.sampled_from(['X', 'Z', 'W']), st.sampled_from([None, -1, 1, -2])).map(lambda x: ['var', x[0], 'v', x[1]])
    expr = st.recursive(st.one_of(leaf, st.just(['num', '2'])),
                        lambda ch: st.tuples(st.just('bin'), st.sampled_from(['+', '*', '-']), ch, ch).map(list), max_leaves=3)
    return st.integers(2, 3).flatmap(lambda k: st.fixed_dictionaries({
        'targets': st.permutations(['A', 'B', 'C']).map(lambda p: list(p)[:k]),
        'exprs': st.lists(expr, min_size=k, max_size=k)}))


def strategy():
    from hypothesis import strategies as st
    return st.fixed_dictionaries({
        'prog': G.programs(max_statements=3, max_leaves=6, named_periods=False, blocks=False, big_offsets=True, max_offset=3),
        'bases': st.lists(st.lists(st.sampled_from([1.0, 2.0, 0.5, 4.0, -1.5, 0.0, 3.0]), min_size=2, max_size=4),
                          min_size=1, max_size=3),
        'tape': st.one_of(st.just([]), G.tapes(10)),
    })


def gen_enumerated(max_nodes):
    def gen():
        for i, prog in enumerate(G.enumerate_programs(max_nodes)):
            yield {'prog': prog}
            if i % 5 == 0:
                yield {'prog': prog, 'tape': [1 + (i // 5) % 3] * 6}       # other spacings of the same program
        # a series whose name is another series' name with a leading underscore (the storage slot of X is called _X)
        V = lambda n, o=None, k='v': ['var', n, k, o]  # noqa: E731
        for a, b in (('_X', 'X'), ('_x1', 'x1'), ('__a', '_a')):
            yield {'prog': [['assign', V('Y'), ['bin', '+', V(a, -1), V(b)]]]}
            yield {'prog': [['assign', V('Y'), ['bin', '*', V(b, -1), V(a, 1)]]]}
            yield {'prog': [['assign', V(a), ['bin', '+', V(b, -1), V(a, -1)]], ['assign', V('W'), ['bin', '-', V(a), V(b, 1)]]]}
    return gen


def selfcheck():
    G.selfcheck()


def phases(tier):
    quick = tier == 'quick'
    return [
        Phase('enumerated', check_case, gen=gen_enumerated(3 if quick else 4), exhaustive=True),
        Phase('random', check_case, strategy=strategy, examples=4000 if quick else 30000),
        Phase('tuple-targets', check_tuple_targets, strategy=strat_tuple_targets, examples=300 if quick else 5000),
    ]
