"""C15 - all ways of building a class from symbols yield the same model."""
import textwrap
import typing

import numpy as np

from .. import env  # noqa: F401
from ..core import Phase, Result
from .. import grammar as G
from .. import reference as R
from .. import snapshot
from ..represent import Rep, tapes
from ..util import attempt

import fsic
from fsic.parser import Type

ID = 'C15'
TITLE = 'All ways of building a class from symbols yield the same model'
LEVEL = 'exploration'
DESIGN_REF = 'DESIGN.md section 5, C15'
RULE = (
    'programs of grammar G incl. zero statements, verbatim-only programs and symbols stripped of their equation x '
    'with_type_hints x lags/leads/min_lags/min_leads x converter in {default, identity-on-code, if-True wrapper, '
    'comment-prefix, try/except wrapper}. Differential oracle over five classes per case (build_model typed/untyped, '
    'exec of build_model_definition typed/untyped, exec of CODE): equal class lists and LAGS/LEADS, CODE equals the '
    'definition text, identical full snapshots after _evaluate(t) and after solve() on identical data, identical '
    'exception types; the converter is called once per symbol carrying equation+code, in symbol order, and its '
    'output forms the body of _evaluate verbatim. Non-trivial: >= 1 equation and (a non-default converter, an '
    'option, a fenced block or a stripped symbol). Distinct = distinct case JSON.'
)
ASSUMPTIONS = ['the exec namespace provides BaseModel, np and the typing names used by the typed template']
TECHNIQUE = 'differential testing of five build routes on Hypothesis-generated programs; converter call log as oracle'
LEVEL_TEXT = ('Each generated program is built through every route and the resulting classes are compared attribute by '
              'attribute and by full-state snapshots after evaluation and solution on identical data.')
LEVEL_NOTE = 'Trusted: CPython exec; the snapshot function. Not covered: converters that are not pure functions of the symbol.'

CONVERTERS = ['default', 'identity', 'wrap-if', 'comment-prefix', 'try-guard', 'assert-guard', 'debug-guard', 'stateful', 'recorder', 're-entrant']


class StatefulConverter:
    """A callable object: what it inserts depends on its current `tag` (edited by the caller between builds)."""

    def __init__(self, log):
        self.tag = 'first'
        self.log = log

    def __call__(self, symbol):
        self.log.append(symbol.name)
        return f'# {self.tag}\n' + symbol.code + (f'\n{self.tag}_marker = 1' if self.tag != 'first' else '')


class RecorderConverter(list):
    """A callable that keeps what it was given in itself - a list subclass, hence empty (falsy) when it is passed in."""

    def __init__(self, log):
        super().__init__()
        self.log = log

    def __call__(self, item, /):
        # (the documented interface: a callable that takes a symbol - whatever it calls its parameter)
        self.log.append(item.name)
        self.append(item.name)
        return '# recorded\n' + item.code


_STATEFUL = {}



def make_converter(kind, log):
    if kind == 'default':
        return None
    if kind == 'recorder':
        return RecorderConverter(log)
    if kind == 'stateful':
        # the SAME object for every build of this check process; its state is advanced before each use
        conv = _STATEFUL.setdefault('conv', StatefulConverter(log))
        conv.log = log
        conv.tag = 'state%d' % (_STATEFUL.get('n', 0) % 3)
        return conv

    def conv(sym):
        symbol = sym
        log.append(symbol.name)
        code = symbol.code
        if kind == 'identity':
            return code
        if kind == 'wrap-if':
            return 'if True:\n' + textwrap.indent(code if code.strip() else 'pass', '    ')
        if kind == 'comment-prefix':
            return '# converted: ' + ' '.join((symbol.equation or '').split())[:40].replace('`', '') + '\n' + code
        if kind == 'assert-guard':
            return 'assert t < 0, "guard"\n' + code
        if kind == 'debug-guard':
            return 'if __debug__:\n    t = t\nelse:\n    raise RuntimeError("optimised")\n' + code
        if kind == 're-entrant':
            # a converter that calls back into the library while the outer build is under way (here: to look at the
            # default translation of the one symbol, as build_model's own fallback does)
            inner = fsic.build_model_definition([symbol])
            return '# checked (%d characters by default)\n' % len(inner.split('def _evaluate')[1]) + code
        if kind == 'try-guard':
            return 'try:\n' + textwrap.indent(code if code.strip() else 'pass', '    ') + '\nexcept ZeroDivisionError:\n    pass'
        raise ValueError(kind)
    return conv


def exec_definition(text):
    ns = {'BaseModel': fsic.BaseModel, 'np': np}
    for k in ('Any', 'List', 'Optional', 'Dict', 'Tuple', 'Union', 'Callable'):
        ns[k] = getattr(typing, k)
    exec(text, ns)
    return ns['Model']


def class_sig(M):
    return {a: (list(getattr(M, a)) if isinstance(getattr(M, a), (list, tuple)) else getattr(M, a))
            for a in ('ENDOGENOUS', 'EXOGENOUS', 'PARAMETERS', 'ERRORS', 'NAMES', 'CHECK', 'LAGS', 'LEADS')}


METHOD_ILLEGAL = ('from math import *', 'global t')     # compile on their own, not inside a method


def check_case(case):
    prog = case['prog']
    opts = {k: v for k, v in (case.get('opts') or {}).items() if v is not None}
    kind = case.get('converter', 'default')
    rep = Rep(case.get('rep'))
    ropts = {k_: rep.int(v_) for k_, v_ in opts.items()}       # the same lengths as NumPy integers
    feats = G.program_features(prog) if prog else set()
    res = Result(classes=['converter:' + kind] + sorted(feats))
    text, _ = G.render_program(prog, [])
    parsed = attempt(fsic.parse_model, text)
    if not parsed.ok and any(st_[0] == 'block' and st_[1] in METHOD_ILLEGAL for st_ in prog):
        # symbol lists the parser only hands out with its syntax check switched off: build_model has to reject them
        parsed = attempt(fsic.parse_model, text, check_syntax=False)
        res.tag('parsed-without-syntax-check')
    if not parsed.ok:
        res.tag('skipped:parse-rejected')
        return res
    symbols = list(parsed.value)
    strip = case.get('strip')
    if strip is not None and symbols:
        endo = [i for i, s in enumerate(symbols) if s.type == Type.ENDOGENOUS]
        if endo:
            i = endo[strip % len(endo)]
            symbols[i] = symbols[i]._replace(equation=None, code=None)
            res.tag('stripped-symbol')
    n_eq = sum(1 for s in symbols if s.equation is not None and s.code is not None)
    res.nontrivial = n_eq >= 1 and (kind != 'default' or bool(opts) or 'fenced-block' in feats or strip is not None)

    expected_calls = [s.name for s in symbols
                      if s.type in (Type.ENDOGENOUS, Type.VERBATIM) and s.equation is not None and s.code is not None]
    if kind == 'stateful':
        # an earlier build with the same symbols, options and converter object, in another state of the converter
        _STATEFUL['n'] = _STATEFUL.get('n', 0) + 1
        for hints in (True, False):
            attempt(fsic.build_model, symbols, converter=make_converter(kind, []), with_type_hints=hints, **ropts)
        _STATEFUL['n'] += 1
    routes = {}
    texts = {}
    for hints in (True, False):
        tag = 'typed' if hints else 'untyped'
        log_d, log_b = [], []
        d = attempt(fsic.build_model_definition, symbols, converter=make_converter(kind, log_d),
                    with_type_hints=hints, **ropts)
        b = attempt(fsic.build_model, symbols, converter=make_converter(kind, log_b), with_type_hints=hints, **ropts)
        if d.ok and not b.ok and b.exc_name == 'BuildError':
            # build_model rejects a body that does not compile inside the method (e.g. a verbatim `from math import *`):
            # then the definition text must be just as unusable - the two routes reject together
            ex = attempt(exec_definition, d.value)
            res.tag('build-rejected:BuildError')
            res.nontrivial = True
            if ex.ok:
                res.fail(f'build/rejected-but-definition-executes/{tag}', f'{text!r} {opts}: build_model {b!r}, '
                         f'but the text of build_model_definition executes')
            return res
        if kind != 'default' and (not d.ok or not b.ok):
            # the converters used here return valid code for every symbol: whatever builds with the default converter
            # builds with them too
            plain = attempt(fsic.build_model, symbols, with_type_hints=hints, **ropts)
            if plain.ok:
                res.fail(f'converter/build-raised-{d.exc_name or b.exc_name}/{tag}', f'{text!r} {opts} converter {kind}: definition {d!r}, '
                         f'build_model {b!r}; both succeed with the default converter')
                return res
        if not d.ok or not b.ok:
            if d.exc_name != b.exc_name:
                res.fail(f'build/outcome-differs/{tag}', f'{text!r} {opts}: definition {d!r}, build_model {b!r}')
            else:
                res.tag('build-raised:' + str(d.exc_name))
            return res
        texts[tag] = d.value
        if kind != 'default':
            for nm, lg in (('build_model_definition', log_d), ('build_model', log_b)):
                if lg != expected_calls:
                    res.fail(f'converter/calls/{tag}', f'{text!r}: {nm} called the converter for {lg}, '
                             f'symbols with equation and code are {expected_calls}')
            conv = make_converter(kind, [])
            outs = [textwrap.indent(conv(s), '        ') for s in symbols
                    if s.type in (Type.ENDOGENOUS, Type.VERBATIM) and s.equation is not None and s.code is not None]
            block = '\n\n'.join(outs) if outs else '        pass'
            if not d.value.endswith(block):
                res.fail(f'converter/output-not-verbatim/{tag}', f'{text!r}: body of _evaluate is not the converter output '
                         f'{block!r}; definition ends with {d.value[-len(block) - 40:]!r}')
        if b.value.CODE != d.value:
            res.fail(f'code-attribute-differs/{tag}', f'{text!r}: build_model().CODE != build_model_definition() text')
        routes[f'build_model/{tag}'] = b.value
        ex = attempt(exec_definition, d.value)
        if not ex.ok:
            res.fail(f'exec-definition-failed/{tag}/{ex.exc_name}', f'{text!r}: {ex!r}')
            return res
        routes[f'definition/{tag}'] = ex.value
        ex = attempt(exec_definition, b.value.CODE)
        if not ex.ok:
            res.fail(f'exec-CODE-failed/{tag}/{ex.exc_name}', f'{text!r}: {ex!r}')
            return res
        routes[f'CODE/{tag}'] = ex.value

    names = list(routes)
    base = class_sig(routes[names[0]])
    for nm in names[1:]:
        other = class_sig(routes[nm])
        if other != base:
            bad = [k for k in base if base[k] != other[k]]
            res.fail(f'class-attributes-differ/{nm.split("/")[1]}/{"+".join(bad)}',
                     f'{text!r} {opts}: {names[0]} has {base}, {nm} has {other}')
            return res

    # behaviour on identical data
    L, K = base['LAGS'], base['LEADS']
    n = L + K + 1 + case.get('extra', 2)
    t = min(L + case.get('tpos', 0), n - 1)
    data = R.make_data(base['NAMES'], n, case.get('bases') or [[1.0, 2.0, 0.5, 4.0]])
    outcomes = {}
    for nm, M in routes.items():
        m = attempt(lambda: M(range(n), **{k: v.copy() for k, v in data.items()}))
        if not m.ok:
            outcomes[nm] = ('instantiate', m.exc_name, None, None)
            continue
        m = m.value
        ev = R.quiet_call(attempt, m._evaluate, t)
        snap1 = snapshot.snapshot(m, with_class=False)
        sv = R.quiet_call(attempt, m.solve, max_iter=3, failures='ignore', errors='ignore')
        snap2 = snapshot.snapshot(m, with_class=False)
        outcomes[nm] = (ev.exc_name, sv.exc_name if not sv.ok else repr(sv.value), snap1, snap2)
    first = outcomes[names[0]]
    for nm in names[1:]:
        o = outcomes[nm]
        if o[0] != first[0]:
            res.fail(f'behaviour/evaluate-outcome/{nm.split("/")[1]}', f'{text!r}: {names[0]} {first[0]}, {nm} {o[0]}')
        elif o[1] != first[1]:
            res.fail(f'behaviour/solve-outcome/{nm.split("/")[1]}', f'{text!r}: {names[0]} {first[1]}, {nm} {o[1]}')
        else:
            for a, b, what in ((first[2], o[2], 'after-evaluate'), (first[3], o[3], 'after-solve')):
                if a is None or b is None:
                    continue
                a2, b2 = dict(a), dict(b)
                a2.pop('type', None), b2.pop('type', None)
                d = snapshot.first_diff_key(a2, b2)
                if d:
                    res.fail(f'behaviour/state-{what}/{nm.split("/")[1]}', f'{text!r}: {names[0]} vs {nm} differ at {d}')
    if not symbols:
        # an empty symbol list yields a valid model that solves trivially
        m = routes[names[0]](range(L + K + 3))
        out = attempt(m.solve)
        if not out.ok or list(out.value[1]) != [L, L + 1, L + 2] or list(out.value[2]) != [True] * 3:
            res.fail('empty-model/solve', f'empty symbol list: solve() -> {out!r}')
        res.tag('empty-symbol-list')
    return res


def strategy():
    from hypothesis import strategies as st
    opt = st.one_of(st.none(), st.integers(0, 3))
    progs = st.one_of(
        G.programs(max_statements=4, blocks=True, named_periods=False, big_offsets=False),
        G.programs(max_statements=3, blocks=True, named_periods=False, big_offsets=False),
        st.just([]),
        st.sampled_from([[['block', 'pass']], [['block', 'x = 1\ny = x + 1']], [['block', 'pass'], ['block', 'pass']],
                         [['block', 'assert t < 0, "never"']], [['block', 'if __debug__:\n    raise KeyError(t)']],
                         [['block', 'x = 1'], ['block', 'x = 1']],
                         # each block compiles on its own, the method as a whole does not
                         [['block', 'x = 1'], ['block', 'global x']],
                         [['assign', ['var', 'Y', 'v', None], ['var', 'X', 'v', None]], ['block', 'x = 1'], ['block', 'global x']],
                         [['block', 'x = t'], ['block', 'nonlocal x']], [['block', 't = 1'], ['block', 'global t']],
                         # blocks without any statement: still symbols that carry an equation
                         [['block', '']], [['block', '# TODO']], [['block', '# a'], ['block', '']],
                         [['assign', ['var', 'Y', 'v', None], ['var', 'X', 'v', -1]], ['block', '# note']],
                         [['block', ''], ['assign', ['var', 'Y', 'v', None], ['var', 'X', 'v', None]]],
                         # statements that compile on their own (the parser's syntax check) but not inside a method
                         [['block', 'from math import *']], [['block', 'global t']],
                         [['assign', ['var', 'Y', 'v', None], ['var', 'X', 'v', -1]], ['block', 'from math import *']],
                         [['block', 'global t'], ['assign', ['var', 'Y', 'v', None], ['bin', '+', ['var', 'C', 'v', None], ['var', 'G', 'v', None]]]]]),
    )
    return st.fixed_dictionaries({
        'prog': progs,
        'opts': st.fixed_dictionaries({}, optional={'lags': opt, 'leads': opt, 'min_lags': st.integers(0, 3),
                                                    'min_leads': st.integers(0, 3)}),
        'converter': st.sampled_from(CONVERTERS),
        'rep': tapes(4),
        'strip': st.one_of(st.none(), st.none(), st.integers(0, 3)),
        'extra': st.integers(0, 3),
        'tpos': st.integers(0, 2),
        'bases': st.lists(st.lists(st.sampled_from([1.0, 2.0, 0.5, 4.0, -1.5, 0.0, 3.0]), min_size=2, max_size=4),
                          min_size=1, max_size=3),
    })


def gen_enumerated(max_nodes):
    def gen():
        optsets = [{}, {'lags': 2}, {'leads': 3}, {'min_lags': 3, 'min_leads': 1}, {'lags': 1, 'leads': 2}]
        for i, prog in enumerate(G.enumerate_programs(max_nodes)):
            if i % 3:
                continue
            yield {'prog': prog, 'opts': optsets[(i // 3) % len(optsets)], 'converter': CONVERTERS[(i // 3) % len(CONVERTERS)],
                   'strip': None if (i // 3) % 4 else 0}
    return gen


def phases(tier):
    quick = tier == 'quick'
    return [
        Phase('enumerated', check_case, gen=gen_enumerated(4 if quick else 5)),
        Phase('random', check_case, strategy=strategy, examples=4000 if quick else 30000),
    ]
