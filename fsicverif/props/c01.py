"""C01 - the generated model evaluates exactly the equations written in the script."""
import ast

import numpy as np

from .. import env  # noqa: F401
from ..core import Phase, Result
from .. import grammar as G
from .. import reference as R
from ..recarray import install
from ..util import attempt, same_array

import fsic
from fsic.parser import Type

ID = 'C01'
TITLE = 'Generated model evaluates exactly the equations written in the script'
LEVEL = 'translation_validation'
DESIGN_REF = 'DESIGN.md section 5, C01; sections 4.1-4.3'
RULE = (
    'programs of grammar G (identifiers incl. keyword-affixed and function-like names, {param}/<error> terms, '
    'signed/padded/two-digit offsets, + - * / ** unary minus, parentheses, multi-line right-hand sides, comments, '
    'replaced/other/namespaced calls, comparisons, and/or/not, conditional expressions, verbatim fragments, named '
    'periods, 1..N statements sharing variables): all programs up to a node bound over a reduced alphabet are '
    'enumerated, larger ones are drawn by Hypothesis. Per program: (a) structural, for all data - AST of each '
    'Symbol.code equals the expected translation built from the generator tree; the normalised equation mapped by '
    'the stated rule equals the code; variable order = order of first appearance; (b) dynamic - one _evaluate(t) '
    'at a feasible t against a reference Gauss-Seidel pass: every cell of every series, the exception type, and the '
    'exact sequence of recorded reads/writes. Non-trivial: program has a non-zero offset, parameter/error term, '
    'call, keyword/comparison, verbatim fragment, named period or >= 2 statements sharing a variable. '
    'Distinct = distinct (program, layout tape, data) JSON.'
)
ASSUMPTIONS = [
    'names of container attributes are excluded by construction',
    'numeric literals have no exponent; verbatim fragments are atomic expressions',
    'the left-hand side is written without inner whitespace',
]
TECHNIQUE = ('translation validation by generated programs: bounded-exhaustive enumeration + Hypothesis grammar-based '
             'generation; oracle = expected Python AST built from the generator tree, plus a differential run against a '
             'reference evaluator with recording arrays')
LEVEL_TEXT = ('Every generated script is translated by fsic and validated structurally (syntax-tree equality of the '
              'generated code with an independently built expected tree - hence for all data) and dynamically (one pass '
              'against a reference evaluator, reads/writes recorded). Exhaustive up to a node bound on a reduced alphabet, '
              'random beyond. Right level: the translator is a regex chain whose failures are shape-specific.')
LEVEL_NOTE = ('Trusted: CPython ast/compile, NumPy float arithmetic, my renderer (self-checked against a separate '
              'rewriter at start-up). Not covered: scripts outside grammar G (exponent literals, '
              'whitespace inside the left-hand side).')

C01_LAYOUT_KINDS = {'explicit0', 'index-pad', 'brace-pad', 'angle-pad', 'wrap-rhs', 'paren-pad', 'comment',
                    'pre-statement', 'tail', 'op-space'}

VARLIKE = (Type.ENDOGENOUS, Type.EXOGENOUS, Type.PARAMETER, Type.ERROR, Type.VARIABLE)


def selfcheck():
    G.selfcheck()


def check_program(case, *, layout_kinds=C01_LAYOUT_KINDS, dynamic=True):
    prog = case['prog']
    ref = G.Reference(prog)
    feats = G.program_features(prog)
    res = Result(nontrivial=G.nontrivial(feats), classes=sorted(feats))
    if ref.reject:
        res.tag('skipped:reject-class')
        return res
    text, tape = G.render_program(prog, G.Tape(case.get('tape'), kinds=layout_kinds))
    parsed = attempt(fsic.parse_model, text)
    if ref.function_variable_clash:
        # a name used both as a variable and as a function: the symbol table (keyed by name) cannot hold
        # both; the script must then be rejected with the parser's own error - or be translated in full
        res.tag('function-variable-clash')
        if not parsed.ok and isinstance(parsed.exc, (fsic.exceptions.SymbolError, fsic.exceptions.ParserError)):
            return res
    if not parsed.ok:
        res.fail(f'parse-rejected/{parsed.exc_name}', f'{text!r}: {parsed!r}')
        return res
    symbols = parsed.value

    # (a) structural ---------------------------------------------------------------------------
    by_name = {s.name: s for s in symbols if s.name is not None}
    got_order = [s.name for s in symbols if s.type in VARLIKE]
    if got_order != ref.order:
        res.fail('structure/variable-order', f'{text!r}: symbols {got_order}, first appearance {ref.order}')
    for lhs, st in ref.equations:
        sym = by_name.get(lhs)
        if sym is None or sym.code is None or sym.equation is None:
            res.fail('structure/equation-missing', f'{text!r}: no code for {lhs}')
            continue
        want = G.dump(G.statement_pyast(st))
        try:
            got = G.dump(G.parse_code(sym.code))
        except SyntaxError as e:
            res.fail('structure/code-not-python', f'{text!r}: {sym.code!r}: {e}')
            continue
        if got != want:
            res.fail('structure/code-differs', f'{text!r}: code {sym.code!r} is not the expected translation '
                     f'{ast.unparse(G.statement_pyast(st))!r}')
        try:
            eq = R.equation_as_code_dump(sym.equation)
        except SyntaxError as e:
            res.fail('structure/equation-not-parsable', f'{text!r}: {sym.equation!r}: {e}')
            continue
        if eq != got:
            res.fail('structure/equation-vs-code', f'{text!r}: equation {sym.equation!r} does not denote code {sym.code!r}')
    blocks = [s for s in symbols if s.type == Type.VERBATIM]
    if len(blocks) != ref.n_blocks:
        res.fail('structure/verbatim-blocks', f'{text!r}: {len(blocks)} verbatim symbols, {ref.n_blocks} fenced blocks')
    if not dynamic:
        return res

    # (b) dynamic ----------------------------------------------------------------------------------
    built = attempt(fsic.build_model, symbols)
    if not built.ok:
        res.fail(f'build-failed/{built.exc_name}', f'{text!r}: {built!r}')
        return res
    Model = built.value
    extra = case.get('extra', 1)
    n = ref.lags + ref.leads + 1 + extra
    t = ref.lags + min(case.get('tpos', 0), extra)
    if 'named-period' in feats:
        n = max(n, 5)
        span = R.mixed_span(n)
    else:
        span = range(n)
    labels = list(span)
    data = R.make_data(ref.names, n, case.get('bases') or [[1.0, 2.0, 0.5, 4.0]])
    made = attempt(lambda: Model(span, **{k: v.copy() for k, v in data.items()}))
    if not made.ok:
        res.fail(f'instantiate-failed/{made.exc_name}', f'{text!r}: {made!r}')
        return res
    model = made.value
    if list(model.names) != ref.names or model.LAGS != ref.lags or model.LEADS != ref.leads:
        res.fail('dynamic/names-or-lags', f'{text!r}: names {model.names} LAGS {model.LAGS} LEADS {model.LEADS}; '
                 f'expected {ref.names} {ref.lags} {ref.leads}')
        return res

    log_m, log_r = [], []
    install(model, ref.names, log_m)
    got = R.quiet_call(attempt, model._evaluate, t)
    arrays = {k: v.copy() for k, v in data.items()}
    ns = R.RefNS(arrays, labels, log_r)
    want = R.quiet_call(attempt, R.ref_evaluate, ref, ns, t)
    if got.exc_name != want.exc_name:
        res.fail('dynamic/exception-type', f'{text!r} at t={t}: model {got!r}, reference {want!r}')
        return res
    for name in ref.names:
        a = np.asarray(model.__dict__['_' + name])
        if not same_array(a, arrays[name]):
            cls = 'lhs' if name in ref.endogenous else 'non-lhs'
            res.fail(f'dynamic/value/{cls}', f'{text!r} at t={t}: {name} = {a.tolist()}, reference {arrays[name].tolist()}')
            break
    if log_m != log_r:
        res.fail('dynamic/access-sequence', f'{text!r} at t={t}: model accessed {log_m[:12]}, reference {log_r[:12]}')
    if not want.ok:
        res.tag('dynamic:raises')
    if any(st[0] == 'assign' and any(nm in ref.endogenous_names for nm, off in ref.reads(st) if off == 0)
           for _, st in ref.equations) and len(ref.equations) > 1:
        res.tag('gauss-seidel-visible')
    return res


def check_case(case):
    return check_program(case)


def gen_exhaustive(max_nodes):
    def gen():
        for prog in G.enumerate_programs(max_nodes):
            yield {'prog': prog, 'tape': [], 'extra': 1, 'tpos': 0}
    return gen


def strategy(**kw):
    from hypothesis import strategies as st

    def make():
        base = st.lists(st.sampled_from([1.0, 2.0, 0.5, 4.0, -1.5, 0.0, 3.0, 0.25, 'nan', 'inf']), min_size=2, max_size=4)
        return st.fixed_dictionaries({
            'prog': G.programs(**kw),
            'tape': G.tapes(),
            'extra': st.integers(0, 3),
            'tpos': st.integers(0, 3),
            'bases': st.lists(base, min_size=1, max_size=4),
        })
    return make


def _decode_bases(case):
    return case


def phases(tier):
    quick = tier == 'quick'
    return [
        Phase('enumerated', check_case, gen=gen_exhaustive(5 if quick else 6), exhaustive=True),
        Phase('random', check_case, strategy=strategy(named_periods=False, blocks=True),
              examples=1500 if quick else 40000),
        Phase('random-named-periods', check_case, strategy=strategy(named_periods=True, max_statements=3),
              examples=500 if quick else 10000),
        Phase('random-large', check_case, strategy=strategy(named_periods=False, blocks=True, max_statements=10, max_leaves=12),
              examples=150 if quick else 4000),
        Phase('random-function-variable-clash', check_case, strategy=strategy(clash=True, max_statements=2),
              examples=300 if quick else 5000),
    ]
