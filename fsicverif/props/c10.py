"""C10 - label-based access addresses exactly the labelled periods."""
import numpy as np

from .. import env  # noqa: F401
from ..core import Phase, Result
from .. import snapshot, spans
from ..represent import Rep
from ..util import attempt, same_array

from fsic.core import VectorContainer
import fsic

ID = 'C10'
TITLE = 'Label-based access addresses exactly the labelled periods'
LEVEL = 'exploration'
DESIGN_REF = 'DESIGN.md section 5, C10'
RULE = (
    'exhaustive over the span catalogue (ranges with non-zero origin and step, lists of str incl. the empty string, mixed '
    'hashables incl. 0 and tuples, int lists, NumPy int/str arrays, pandas Index int/str, annual and quarterly PeriodIndex, '
    'annual and daily DatetimeIndex) for every length up to the bound: every label in every spelling (Period / str, '
    'Timestamp / ISO string), every (start, stop, step) with start, stop in labels + open + absent and step in '
    '{None,1,2,3}, for get and set, on VectorContainer and BaseModel. The series holds arange(n) so values identify '
    'positions. Oracle: obj[name, label] = pos(label) with my own pos(); obj[name, a:b:s] = arange(pos(a), pos(b)+1, s); '
    'a value written through any of five paths is read back through all five and no other cell changes; an absent label '
    'raises KeyError and leaves the snapshot unchanged. Non-trivial: both slice ends given with step != 1, or a non-range '
    'span, or an absent label. Distinct = distinct case JSON. Enumeration is complete within the bound.'
)
ASSUMPTIONS = ['label equality is Python == ; bool labels and None inside slices are not generated',
               'coarser pandas spellings (a year in a quarterly index) are not labels of the span and are not generated here']
TECHNIQUE = 'exhaustive enumeration of spans x labels x slices for get and set against an independent position function'
LEVEL_TEXT = ('The domain (spans up to a length bound of every supported type, all labels and slice triples) is finite and is '
              'enumerated completely; each access is compared with an independent pos().')
LEVEL_NOTE = 'Trusted: spans.pos() (equality search in list(span)). Not covered: spans longer than the bound, duplicate labels.'


def make(desc, kind):
    span = spans.build(desc)
    n = len(span)
    if kind == 'model':
        class M(fsic.BaseModel):
            ENDOGENOUS = ['X']
            EXOGENOUS = ['Y']
            NAMES = ENDOGENOUS + EXOGENOUS
            CHECK = ENDOGENOUS
        c = M(span, X=np.arange(float(n)), Y=np.arange(float(n)) * 10)
    else:
        c = VectorContainer(span)
        c.add_variable('X', np.arange(float(n)))
        c.add_variable('Y', np.arange(float(n)) * 10)
    return c, n


def positions(labs, a, b, s):
    """Expected positions of labs[a:b:s] by the statement, or 'absent'."""
    n = len(labs)
    pa = 0 if a is None else spans.pos(labs, a)
    pb = n - 1 if b is None else spans.pos(labs, b)
    if pa is None or pb is None:
        return 'absent'
    if n == 0:
        return []
    return list(range(pa, pb + 1, s or 1))


def check_case(case):
    desc = case['span']
    labs = spans.labels(desc)
    c, n = make(desc, case.get('kind', 'container'))
    op = case['op']
    res = Result(classes=['span:' + desc['k'], 'op:' + op])
    before = snapshot.snapshot(c)
    where = desc['k']

    if op in ('get', 'set'):
        label = spans.dec_label(case['label'])
        p = spans.pos(labs, label)
        res.nontrivial = desc['k'] != 'range' or p is None
        if op == 'get':
            out = attempt(lambda: c['X', label])
        else:
            out = attempt(lambda: c.__setitem__(('X', label), -5.0))
        if p is None:
            res.tag('absent-label')
            if out.ok or not isinstance(out.exc, KeyError):
                res.fail(f'{op}/absent-label-not-KeyError/{where}', f'span {labs!r}: {op} at absent label {label!r}: {out!r}')
            d = snapshot.first_diff_key(before, snapshot.snapshot(c))
            if d:
                res.fail(f'{op}/absent-label-changed-state/{where}', f'span {labs!r}: label {label!r} changed {d}')
            return res
        if not out.ok:
            res.fail(f'{op}/raised-{out.exc_name}/{where}', f'span {labs!r}: {op} at label {label!r} (position {p}): {out!r}')
            return res
        if op == 'get':
            if np.ndim(out.value) != 0 or float(out.value) != float(p):
                res.fail(f'get/wrong-element/{where}', f'span {labs!r}: obj[X, {label!r}] = {out.value!r}, position is {p}')
        else:
            want = np.arange(float(n))
            want[p] = -5.0
            if not same_array(c.X, want):
                res.fail(f'set/wrong-element/{where}', f'span {labs!r}: obj[X, {label!r}] = -5 gave {c.X.tolist()}, expected {want.tolist()}')
            if not same_array(c.Y, np.arange(float(n)) * 10):
                res.fail(f'set/other-variable-changed/{where}', f'span {labs!r}: Y changed to {c.Y.tolist()}')
        return res

    if op in ('get-slice', 'set-slice'):
        a = spans.dec_label(case['a']) if case['a'] is not None else None
        b = spans.dec_label(case['b']) if case['b'] is not None else None
        s = case['s']
        want_pos = positions(labs, a, b, s)
        rep = Rep(case.get('rep'))
        sl = slice(a, b, rep.int(s))       # the step as a NumPy integer is the same step
        rep.tag(res)
        res.nontrivial = (a is not None and b is not None and s not in (None, 1)) or desc['k'] != 'range' or want_pos == 'absent'
        if op == 'get-slice':
            out = attempt(lambda: c['X', sl])
        else:
            new_values = -7.0
            if case.get('vals') and want_pos != 'absent':
                # one value per addressed period, as a list / tuple / array (rather than one scalar for all of them)
                new_values = [-7.0 - i for i in range(len(want_pos))]
                new_values = {'list': list, 'tuple': tuple, 'array': np.array}[case['vals']](new_values)
                res.tag('slice-write:' + case['vals'])
            out = attempt(lambda: c.__setitem__(('X', sl), new_values))
        if n == 0 and (a is None or b is None):
            # open ends on an empty span: nothing to address; any of KeyError / IndexError / empty result is acceptable
            return res
        if want_pos == 'absent':
            res.tag('absent-label')
            if out.ok or not isinstance(out.exc, KeyError):
                res.fail(f'{op}/absent-label-not-KeyError/{where}', f'span {labs!r}: {op} [{a!r}:{b!r}:{s}]: {out!r}')
            d = snapshot.first_diff_key(before, snapshot.snapshot(c))
            if d:
                res.fail(f'{op}/absent-label-changed-state/{where}', f'span {labs!r}: [{a!r}:{b!r}:{s}] changed {d}')
            return res
        if not out.ok:
            res.fail(f'{op}/raised-{out.exc_name}/{where}', f'span {labs!r}: {op} [{a!r}:{b!r}:{s}]: {out!r}')
            return res
        cls = ('open-start' if a is None else 'start') + '+' + ('open-stop' if b is None else 'stop') + ('+step' if s not in (None, 1) else '')
        if op == 'get-slice':
            if not same_array(out.value, np.array(want_pos, dtype=float)):
                res.fail(f'get-slice/wrong-positions/{where}/{cls}', f'span {labs!r}: obj[X, {a!r}:{b!r}:{s}] = '
                         f'{np.asarray(out.value).tolist()}, positions by the statement {want_pos}')
        else:
            want = np.arange(float(n))
            want[want_pos] = new_values
            if case.get('vals'):
                cls += '/sequence'
            if not same_array(c.X, want):
                res.fail(f'set-slice/wrong-positions/{where}/{cls}', f'span {labs!r}: obj[X, {a!r}:{b!r}:{s}] = {new_values!r} gave '
                         f'{c.X.tolist()}, expected {want.tolist()}')
        return res

    if op == 'paths':
        # write through path w at label L, read back through every path
        label = spans.dec_label(case['label'])
        p = spans.pos(labs, label)
        res.nontrivial = desc['k'] != 'range'
        v = 123.5
        w = case['w']
        whole = np.arange(float(n))
        whole[p] = v
        prelude = case.get('prelude')
        if prelude:
            # an earlier whole-series write of integer-valued (or boolean) Python objects through one of the paths:
            # the series still takes the non-integer value written next
            ints = list(range(n)) if 'int' in prelude else [i % 2 == 0 for i in range(n)]
            if 'bool' in prelude:
                whole = np.array([float(x) for x in ints])
                whole[p] = v
            if prelude.startswith('attr'):
                c.X = ints if 'tuple' not in prelude else tuple(ints)
            else:
                c['X'] = ints if 'tuple' not in prelude else tuple(ints)
            res.tag('prelude:' + prelude)
        if w == 'attribute':
            c.X = whole.copy()
        elif w == 'name-key':
            c['X'] = whole.tolist()
        elif w == 'position':
            c.X[p] = v
        elif w == 'label':
            c['X', label] = v
        elif w == 'label-slice':
            c['X', label:label] = v
        reads = {
            'attribute': lambda: c.X[p], 'name-key': lambda: c['X'][p], 'label': lambda: c['X', label],
            'label-slice': lambda: c['X', label:label][0], 'values': lambda: c.values[list(c.index).index('X')][p]
            if not hasattr(c, 'names') else c.values[list(c.names).index('X')][p],
        }
        for r, fn in reads.items():
            out = attempt(fn)
            if not out.ok or float(out.value) != v:
                res.fail(f'paths/{w}->{r}/{where}', f'span {labs!r}: wrote {v} via {w} at {label!r}, read via {r}: {out!r}')
        if not same_array(c.X, whole):
            res.fail(f'paths/{w}/other-cells-changed/{where}', f'span {labs!r}: after writing via {w}: {c.X.tolist()}')
        return res
    raise ValueError(op)


def gen_all(max_len):
    def gen():
        i = 0
        nrep = 0
        nseq = 0
        # (plus list spans in which None / False are labels like any other - single-label access only: as a slice bound
        # None means "open", and pandas would turn a None label into NaN)
        for desc in spans.catalogue(max_len) + [{'k': 'list', 'items': ['a', None, 1, False, 2.5][:m]} for m in (2, 3, 5)]:
            labs = spans.labels(desc)
            kind = 'model' if i % 4 == 3 else 'container'
            i += 1
            present = []
            for x in labs:
                for sp in spans.spellings(desc, x):
                    present.append(spans.enc_label(sp))
            absent = [spans.enc_label(x) for x in spans.absent_labels(desc) + spans.odd_absent_labels(desc)]
            for lab in present + absent:
                for op in ('get', 'set'):
                    yield {'span': desc, 'kind': kind, 'op': op, 'label': lab}
            ends = [None] + present + absent[:1]
            for a in ends:
                for b in ends:
                    for s in (None, 1, 2, 3):
                        for op in ('get-slice', 'set-slice'):
                            yield {'span': desc, 'kind': kind, 'op': op, 'a': a, 'b': b, 's': s}
                        nseq += 1
                        yield {'span': desc, 'kind': kind, 'op': 'set-slice', 'a': a, 'b': b, 's': s, 'vals': ('list', 'array', 'tuple')[nseq % 3]}
                        if s in (2, 3) and (a is not None or b is not None):
                            nrep += 1
                            yield {'span': desc, 'kind': kind, 'op': ('get-slice', 'set-slice')[nrep % 2], 'a': a, 'b': b, 's': s,
                                   'rep': [1 + nrep % 3]}
            for lab in [spans.enc_label(x) for x in labs if x is not None]:      # (None:None is the whole span)
                for j, w in enumerate(('attribute', 'name-key', 'position', 'label', 'label-slice')):
                    yield {'span': desc, 'kind': kind, 'op': 'paths', 'label': lab, 'w': w}
                    if w in ('position', 'label', 'label-slice'):
                        yield {'span': desc, 'kind': kind, 'op': 'paths', 'label': lab, 'w': w,
                               'prelude': ['attr-int-list', 'key-int-list', 'attr-int-tuple', 'key-bool-list'][(i + j) % 4]}
    return gen


def gen_long():
    def gen():
        for desc in spans.catalogue_long():
            labs = spans.labels(desc)
            enc = [spans.enc_label(x) for x in labs]
            for lab in enc + [spans.enc_label(x) for x in spans.absent_labels(desc)]:
                for op in ('get', 'set'):
                    yield {'span': desc, 'op': op, 'label': lab}
            ends = [None] + enc[::3] + enc[-1:]
            for a in ends:
                for b in ends:
                    for s_ in (None, 2, 5):
                        for op in ('get-slice', 'set-slice'):
                            yield {'span': desc, 'op': op, 'a': a, 'b': b, 's': s_}
                        yield {'span': desc, 'op': 'set-slice', 'a': a, 'b': b, 's': s_, 'vals': 'list'}
    return gen


def phases(tier):
    quick = tier == 'quick'
    return [Phase('all-spans-labels-slices', check_case, gen=gen_all(5 if quick else 8), exhaustive=True),
            Phase('long-spans', check_case, gen=gen_long())]
