"""C03 - variable classification, ordering and lag/lead lengths match the script."""
import numpy as np

from .. import env  # noqa: F401
from ..core import Phase, Result
from .. import grammar as G
from .. import reference as R
from ..represent import Rep, tapes, cycle_tape
from ..util import attempt

import fsic
from fsic.exceptions import ParserError, SymbolError

ID = 'C03'
TITLE = 'Variable classification, ordering and lag/lead lengths match the script'
LEVEL = 'exploration'
DESIGN_REF = 'DESIGN.md section 5, C03'
RULE = (
    'programs of grammar G incl. named-period indexes mixed with integer offsets, variables first read and later '
    'assigned, repeated mentions with different offsets; a reject class (a name as variable and as parameter/error, '
    'as parameter and error, two different definitions of one variable) x lags/leads in {None,0..3} x min_lags/'
    'min_leads in 0..3. Oracle: reference classification computed from the generator tree (lists equal in '
    'membership and order, NAMES their concatenation, LAGS/LEADS by the replace / only-raise rule), reject-class '
    'scripts raise SymbolError/ParserError, and Model(span).solve() visits exactly the periods where every '
    'Spans shorter than LAGS+LEADS+1 (down to one period): iter_periods() offers nothing and solve() solves nothing. '
    'reference read/write is inside the span. Non-trivial: a name occurs with >= 2 different offsets, or changes '
    'class between statements, or the program is in the reject class. Distinct = distinct case JSON.'
)
ASSUMPTIONS = ['explicit lags=/leads= combined with min_lags=/min_leads= on the same side: the explicit value is the result '
               '(the statement says explicit values REPLACE and the docstring says they are IMPOSED; min_* only raises the '
               'script-derived value)',
               'two textually identical statements are one definition; duplicates that differ only in layout are not generated']
TECHNIQUE = 'Hypothesis grammar-based generation + bounded enumeration; reference classification model as oracle'
LEVEL_TEXT = ('Generated scripts (accepted and must-reject classes) are parsed and built; every class list, NAMES, LAGS/LEADS '
              'and the default solution range are compared with a reference computed from the generator tree.')
LEVEL_NOTE = 'Trusted: the reference classification (40 lines) and the renderer (self-checked). Not covered: scripts outside G.'


def selfcheck():
    G.selfcheck()


def effective(refv, explicit, minimum):
    if explicit is not None:
        return explicit
    return max(refv, minimum)


def check_case(case):
    prog = case['prog']
    ref = G.Reference(prog)
    feats = G.program_features(prog)
    opts = case.get('opts') or {}
    kinds_changed = False
    seen = {}
    for s in prog:
        if s[0] != 'assign':
            continue
        for name, kind, idx, side in G.statement_terms(s):
            role = 'lhs' if side == 'lhs' else kind
            seen.setdefault(name, set()).add(role)
    kinds_changed = any(len(v) > 1 for v in seen.values())
    res = Result(nontrivial=('same-name-different-offsets' in feats) or kinds_changed or bool(ref.reject),
                 classes=sorted(feats))
    text, _ = G.render_program(prog, G.Tape(case.get('tape'), kinds={'explicit0', 'index-pad', 'brace-pad', 'angle-pad'}))
    parsed = attempt(fsic.parse_model, text)

    if ref.reject:
        res.tag('reject:' + ref.reject.split(':')[0])
        if parsed.ok or not isinstance(parsed.exc, (SymbolError, ParserError)):
            res.fail('reject-class-accepted/' + ref.reject.split(':')[0], f'{text!r} ({ref.reject}): {parsed!r}')
        return res
    if ref.function_variable_clash:
        res.tag('skipped:function-variable-clash')
        return res
    if not parsed.ok:
        res.fail(f'parse-rejected/{parsed.exc_name}', f'{text!r}: {parsed!r}')
        return res
    symbols = parsed.value
    kw = {k: v for k, v in opts.items() if v is not None}
    rep = Rep(case.get('rep'))          # the same lengths as NumPy integers
    built = attempt(fsic.build_model, symbols, **{k: rep.int(v) for k, v in kw.items()})
    rep.tag(res)
    if not built.ok:
        res.fail(f'build-failed/{built.exc_name}', f'{text!r} {kw}: {built!r}')
        return res
    M = built.value
    for attr, want in (('ENDOGENOUS', ref.endogenous), ('EXOGENOUS', ref.exogenous),
                       ('PARAMETERS', ref.parameters), ('ERRORS', ref.errors), ('NAMES', ref.names)):
        got = list(getattr(M, attr))
        if got != want:
            how = 'membership' if sorted(got) != sorted(want) else 'order'
            res.fail(f'classification/{attr}/{how}', f'{text!r}: {attr} = {got}, expected {want}')
    L = effective(ref.lags, opts.get('lags'), opts.get('min_lags') or 0)
    K = effective(ref.leads, opts.get('leads'), opts.get('min_leads') or 0)
    mixed = 'named-period' in feats
    if M.LAGS != L:
        res.fail('lags' + ('/named-period-mixed' if mixed else '') + ('/override' if kw else ''),
                 f'{text!r} {kw}: LAGS = {M.LAGS}, expected {L}')
    if M.LEADS != K:
        res.fail('leads' + ('/named-period-mixed' if mixed else '') + ('/override' if kw else ''),
                 f'{text!r} {kw}: LEADS = {M.LEADS}, expected {K}')
    if res.violations:
        return res

    # default solution range
    extra = case.get('extra', 2)
    n = max(1, L + K + 1 + extra)       # (a negative `extra`: a span too short for the lags and leads)
    if mixed:
        n = max(n, 5)
    span = R.mixed_span(n) if mixed else list(range(100, 100 + n))
    made = attempt(lambda: M(span, **{nm: np.ones(n) * (1.0 + 0.5 * i) for i, nm in enumerate(ref.names)}))
    if not made.ok:
        res.fail(f'instantiate-failed/{made.exc_name}', f'{text!r}: {made!r}')
        return res
    m = made.value
    out = R.quiet_call(attempt, m.solve, max_iter=2, failures='ignore', errors='ignore')
    if n < L + K + 1:
        # a span too short for the lags and leads: no period reads inside the span, so none may be offered / solved
        # (refusing with an exception and returning an empty range both qualify)
        res.tag('span-shorter-than-lags+leads+1')
        res.nontrivial = True
        touched = [i for i in range(n) if str(m.status[i]) != '-' or int(m.iterations[i]) != -1]
        offered = attempt(lambda: [i for i, _ in m.iter_periods()])       # the default range itself
        if offered.ok and offered.value:
            res.fail('default-range/period-offered-on-too-short-span',
                     f'{text!r} {kw}: LAGS={L} LEADS={K} on {n} period(s): iter_periods() offers positions {offered.value}')
        if offered.ok and not offered.value and (not out.ok or [list(x) for x in out.value] != [[], [], []]):
            # the default range exists and is empty: solve() is the loop over it, so it has nothing to do and says so
            res.fail('default-range/empty-range-not-solved-as-empty',
                     f'{text!r} {kw}: LAGS={L} LEADS={K} on {n} period(s): iter_periods() is empty, solve() -> {out!r}')
        if (out.ok and list(out.value[1])) or touched:
            res.fail('default-range/period-offered-on-too-short-span',
                     f'{text!r} {kw}: LAGS={L} LEADS={K} on {n} period(s): solve() -> {out!r}, status {list(m.status)}')
        return res
    if not out.ok:
        # an equation that raises in Python (e.g. integer division by zero) - nothing to compare
        res.tag('solve-raised:' + out.exc_name)
        return res
    labels, indexes, solved = out.value
    want_idx = list(range(L, n - K))
    offered = attempt(lambda: [i for i, _ in m.iter_periods()])
    if not offered.ok or offered.value != want_idx:
        res.fail('default-range/iter_periods' + ('/override' if kw else ''),
                 f'{text!r} {kw} on {n} periods: iter_periods() -> {offered!r}, expected positions {want_idx}')
    if list(indexes) != want_idx or list(labels) != [span[i] for i in want_idx]:
        res.fail('default-range' + ('/override' if kw else ''),
                 f'{text!r} {kw} on {n} periods: solved positions {list(indexes)}, expected {want_idx}')
    if not kw:
        # exactly the periods at which every equation reads and writes inside the span
        inside = []
        for t in range(n):
            ok = True
            for _, st in ref.equations:
                offs = [o for _, o in ref.reads(st)] + [ref.write(st)[1]]
                if any(not (0 <= t + o < n) for o in offs if o is not None):
                    ok = False
            if ok:
                inside.append(t)
        if list(indexes) != inside:
            res.fail('default-range/not-exactly-feasible-set',
                     f'{text!r} on {n} periods: solved {list(indexes)}, feasible set {inside}')
    return res


def reject_programs():
    """Strategy: accepted program + one mutation that the statement says must be rejected."""
    from hypothesis import strategies as st

    @st.composite
    def build(draw):
        prog = draw(G.programs(max_statements=3, max_leaves=4, verbatim=False, named_periods=False))
        ref = G.Reference(prog)
        kind = draw(st.sampled_from(['var-as-param', 'var-as-error', 'param-and-error', 'double-definition',
                                     'double-definition-label']))
        target = draw(st.integers(0, len(prog) - 1))
        s = prog[target]
        if kind == 'double-definition-label':
            # the same right-hand side except for the period label of one term ('p 0' / 'p  0' / tab): different periods
            a, b = draw(st.sampled_from([("'p 0'", "'p  0'"), ('"p 0"', '"p\t0"'), ("'a b'", "'a  b'"), ("'p0'", "'p1'")]))
            term = lambda lab: ['var', s[1][1] if draw(st.booleans()) else 'Q', 'v', ['q', lab]]  # noqa: E731
            name = draw(st.sampled_from(['Q', 'X']))
            s1 = ['assign', ['var', s[1][1], 'v', s[1][3]], ['bin', '+', s[2], ['var', name, 'v', ['q', a]]]]
            s2 = ['assign', ['var', s[1][1], 'v', s[1][3]], ['bin', '+', s[2], ['var', name, 'v', ['q', b]]]]
            prog = prog[:target] + [s1] + prog[target + 1:] + [s2]
        elif kind == 'double-definition':
            other = ['bin', '+', s[2], ['num', '1']]
            new = ['assign', ['var', s[1][1], 'v', s[1][3]], other]
            prog = prog + [new] if draw(st.booleans()) else [new] + prog
        else:
            vnames = [n for n in ref.order if ref.kinds[n] == 'v']
            pnames = ref.parameters + ref.errors
            if kind == 'param-and-error':
                name = draw(st.sampled_from(pnames)) if pnames else 'q'
                extra_terms = [['var', name, 'p', None], ['var', name, 'e', draw(st.sampled_from([None, -1]))]]
                if pnames:
                    have = ref.kinds[name]
                    extra_terms = [['var', name, 'e' if have == 'p' else 'p', draw(st.sampled_from([None, -1, ['q', "'p0'"]]))]]
            else:
                name = draw(st.sampled_from(vnames))
                # (the clashing mention may carry a named-period index as well as an integer offset)
                extra_terms = [['var', name, 'p' if kind == 'var-as-param' else 'e',
                                draw(st.sampled_from([None, -1, 1, ['q', "'p0'"], ['q', '"p 0"']]))]]
            rhs = s[2]
            for term in extra_terms:
                rhs = ['bin', draw(st.sampled_from(['+', '*'])), rhs, term] if draw(st.booleans()) else \
                    ['bin', '+', term, rhs]
            prog = prog[:target] + [['assign', s[1], rhs]] + prog[target + 1:]
        return {'prog': prog, 'tape': draw(G.tapes(10))}

    return build()


def accept_cases(named):
    from hypothesis import strategies as st

    def make():
        opt = st.one_of(st.none(), st.integers(0, 3))
        side = st.one_of(
            st.fixed_dictionaries({}),
            st.fixed_dictionaries({'lags': opt}),
            st.fixed_dictionaries({'min_lags': st.integers(0, 3)}),
            st.fixed_dictionaries({'lags': opt, 'min_lags': st.integers(0, 3)}),
        )
        side2 = st.one_of(
            st.fixed_dictionaries({}),
            st.fixed_dictionaries({'leads': opt}),
            st.fixed_dictionaries({'min_leads': st.integers(0, 3)}),
            st.fixed_dictionaries({'leads': opt, 'min_leads': st.integers(0, 3)}),
        )
        return st.fixed_dictionaries({
            'prog': G.programs(max_statements=4, max_leaves=5, named_periods=named, verbatim=False,
                               max_offset=3, big_offsets=not named),
            'tape': G.tapes(10),
            'opts': st.tuples(side, side2).map(lambda ab: {**ab[0], **ab[1]}),
            'extra': st.sampled_from([0, 1, 2, 3, -1, -2, -3]),
            'rep': tapes(4),
        })
    return make


def gen_enumerated(max_nodes):
    def gen():
        combos = [{}, {'lags': 0}, {'lags': 3}, {'leads': 0}, {'leads': 2}, {'min_lags': 1}, {'min_lags': 3},
                  {'min_leads': 1}, {'min_leads': 3}, {'lags': 1, 'min_leads': 2}, {'min_lags': 2, 'leads': 1},
                  {'lags': 1, 'min_lags': 3}, {'leads': 0, 'min_leads': 2}, {'lags': 3, 'min_lags': 1},
                  {'lags': 0, 'min_lags': 1, 'leads': 2, 'min_leads': 3}]
        for i, prog in enumerate(G.enumerate_programs(max_nodes)):
            yield {'prog': prog, 'tape': [], 'opts': combos[i % len(combos)], 'extra': (i % 3) if i % 5 else -1 - (i // 5) % 3, 'rep': cycle_tape(i)}
    return gen


def phases(tier):
    quick = tier == 'quick'
    return [
        Phase('enumerated', check_case, gen=gen_enumerated(4 if quick else 5), exhaustive=False,
              note='all programs up to the node bound, option settings cycled'),
        Phase('random', check_case, strategy=accept_cases(False), examples=1500 if quick else 30000),
        Phase('random-named-periods', check_case, strategy=accept_cases(True), examples=1500 if quick else 30000),
        Phase('reject-class', check_case, strategy=reject_programs, examples=800 if quick else 15000),
    ]
