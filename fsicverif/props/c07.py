"""C07 - the Fortran back-end computes what the Python back-end computes."""
import numpy as np

from .. import env  # noqa: F401
from ..core import HarnessError, Phase, Result
from .. import fortran_ctypes as FC
from .. import grammar as G
from .. import reference as R
from .. import solvecheck as SC
from ..represent import Rep
from ..util import attempt

import fsic
from fsic.fortran import FortranEngine, build_fortran_definition

ID = 'C07'
TITLE = 'Fortran back-end computes what the Python back-end computes'
LEVEL = 'translation_validation'
DESIGN_REF = 'DESIGN.md section 5, C07; 4.9'
RULE = (
    'programs of grammar G restricted to + - * / **, unary minus, parentheses, exp/log/max/min/abs, parameters, errors, lags '
    'and leads, integer and (binary32-exact) decimal literals, long equations that need continuation lines, up to 40 '
    'variables: Hypothesis-generated plus a fixed family (dyadic-linear programs that sit exactly on the convergence '
    'boundary, wrapping equations, many variables). Each program is translated by build_fortran_definition, compiled with '
    'gfortran -O0 (compilation must succeed), loaded through a ctypes shim with the f2py calling convention and driven '
    'through FortranEngine; the pure-Python class built from the same symbols (and the same lags/leads/min_lags/min_leads settings, never shorter than the script needs) is the differential twin. Per program several '
    '(entry point, period spelling, option set, data) runs over evaluate / solve_t / solve: values within 1e-12*(1+|a|)*ops '
    'after one pass and 1e-9 relative after an iterative solve (exact for dyadic-linear programs), statuses, iteration '
    'counts, return values and exception types equal. Non-trivial: >= 2 equations and a lag or lead, or a wrapped line, or '
    'a transcendental. Distinct = distinct case JSON.'
)
ASSUMPTIONS = ['gfortran 12 at -O0 only; f2py is replaced by a ctypes shim written to its calling convention (trusted base)',
               'data are kept in ranges where values stay finite (positive bases for **, arguments of log in [0.1, 10])',
               'literals that Fortran reads differently (decimals not exact in binary32, integer/integer division, literal arguments of '
               'max/min) are excluded by construction: known finding S19, witnesses replayed every run',
               'iteration counts are compared only when the decisive |diff| of the Python run is not within 1e-6*tol of tol, except '
               'for dyadic-linear programs whose arithmetic is exact']
TECHNIQUE = 'differential translation validation: generated programs compiled with gfortran and run through a ctypes shim vs the Python class'
LEVEL_TEXT = ('Every generated program is translated to Fortran, compiled and run against its Python twin on generated data and '
              'options through all three entry points; translation defects are shape-specific, so generated programs are the '
              'right level.')
LEVEL_NOTE = 'Trusted: gfortran, the ctypes shim (self-tested at start-up against a hand-computed evaluate). Not covered: other compilers / optimisation levels, NaN policies.'

OPS_TOL = 1e-12
ITER_TOL = 1e-9


def selfcheck():
    G.selfcheck()
    if FC.GFORTRAN is None:
        raise HarnessError('gfortran not found')
    try:
        FC.selftest()
    except Exception as e:  # noqa: BLE001
        raise HarnessError(f'fortran shim self-test failed: {e!r}')


_CACHE = {}


def _plain(x):
    """Return values with NumPy scalars turned into the Python values they equal (a label read from an array span is the
    same label)."""
    if isinstance(x, np.generic):
        return x.item()
    if isinstance(x, (list, tuple)):
        return type(x)(_plain(v) for v in x)
    return x


def compile_program(prog, wrap_width=None, build_opts=None):
    """build_opts: {'lags_plus': d, 'leads_plus': d, 'min_lags': m, 'min_leads': m} - the same lag/lead settings are given
    to both builders; explicit lengths are only ever *raised* above what the script needs (a shorter explicit length makes
    the Python class read wrapped-around periods, which has no Fortran counterpart)."""
    key = repr((prog, wrap_width, build_opts))
    if key in _CACHE:
        return _CACHE[key]
    text, _ = G.render_program(prog, [])
    symbols = fsic.parse_model(text)
    kw = {}
    if build_opts:
        base = fsic.build_model(symbols)
        if 'lags_plus' in build_opts:
            kw['lags'] = base.LAGS + build_opts['lags_plus']
        if 'leads_plus' in build_opts:
            kw['leads'] = base.LEADS + build_opts['leads_plus']
        for k in ('min_lags', 'min_leads'):
            if k in build_opts:
                kw[k] = build_opts[k]
    Py = fsic.build_model(symbols, **kw)
    if wrap_width is not None:
        kw = dict(kw, wrap_width=wrap_width)
    ftext = build_fortran_definition(symbols, **kw)
    try:
        eng = FC.Engine(ftext)
    except FC.CompileError as e:
        out = ('compile-error', text, e.stderr, ftext)
        _CACHE[key] = out
        return out

    class F(FortranEngine, Py):
        ENGINE = eng
    out = ('ok', text, Py, F, ftext)
    if len(_CACHE) > 8:
        _CACHE.clear()
    _CACHE[key] = out
    return out


def count_ops(prog):
    n = 0
    for s in prog:
        if s[0] == 'assign':
            n += sum(1 for x in G.walk(s[2]) if x[0] in ('bin', 'un', 'call'))
    return max(n, 1)


def is_dyadic_linear(prog):
    for s in prog:
        for x in G.walk(s[2]):
            if x[0] == 'bin' and x[1] in ('/', '**'):
                return False
            if x[0] == 'call':
                return False
    return True


def _literal_only(e):
    if e[0] == 'num':
        return True
    if e[0] in ('un', 'paren'):
        return _literal_only(e[-1])
    if e[0] == 'bin':
        return _literal_only(e[2]) and _literal_only(e[3])
    return False


def _int_only(e):
    if e[0] == 'num':
        return '.' not in e[1]
    if e[0] in ('un', 'paren'):
        return _int_only(e[-1])
    if e[0] == 'bin':
        return _int_only(e[2]) and _int_only(e[3])
    return False


def risky_literals(prog):
    """Literal shapes that Fortran reads differently from Python (defect S19); excluded from generation by construction."""
    out = set()
    for s in prog:
        if s[0] != 'assign':
            continue
        for x in G.walk(s[2]):
            if x[0] == 'num' and '.' in x[1] and float(np.float32(float(x[1]))) != float(x[1]):
                out.add('inexact-decimal')
            if x[0] == 'bin' and x[1] in ('/', '**') and _int_only(x[2]) and _int_only(x[3]):
                out.add('int-division-or-power')
            if x[0] == 'bin' and _literal_only(x[2]) and _literal_only(x[3]) and not (_int_only(x[2]) and _int_only(x[3])):
                out.add('literal-only-subtree')
            if x[0] == 'call':
                if x[1] in ('max', 'min') and any(_literal_only(a) for a in x[2]):
                    out.add('literal-arg-of-max-min')
                elif any(_literal_only(a) for a in x[2]):
                    out.add('literal-only-subtree')
    return sorted(out)


def make_data(names, n, bases, positive):
    data = R.make_data(names, n, bases)
    if positive:
        for k in data:
            data[k] = np.abs(data[k]) % 3.0 + 0.5
    return data


def close(a, b, tol):
    a, b = np.asarray(a, dtype=float), np.asarray(b, dtype=float)
    if a.shape != b.shape:
        return False
    both_nan = np.isnan(a) & np.isnan(b)
    with np.errstate(invalid='ignore'):
        ok = (np.abs(a - b) <= tol * (1 + np.abs(a))) | both_nan | (a == b)
    return bool(np.all(ok))


def check_case(case):
    prog = case['prog']
    feats = G.program_features(prog)
    res = Result(classes=sorted(feats))
    risky = risky_literals(prog)
    lit = ('/literal:' + '+'.join(risky)) if risky else ''
    built = attempt(compile_program, prog, case.get('wrap_width'), case.get('build_opts'))
    if not built.ok:
        res.tag('skipped:python-side-rejected')
        return res
    if built.value[0] == 'compile-error':
        _, text, stderr, ftext = built.value
        first = [ln for ln in stderr.splitlines() if 'Error' in ln][:1]
        cls = ('line-too-long' if 'Line truncated' in stderr or 'truncated' in stderr else
               'type-mismatch' if 'must be' in stderr or 'same type' in stderr else 'other')
        res.fail(f'compile-failed/{cls}{lit}', f'{text!r}: gfortran: {" ".join(first)[:300]}')
        return res
    _, text, Py, F, ftext = built.value
    if case.get('build_opts'):
        res.tag('lag-lead-settings')
    wrapped = '&\n&' in ftext.split('subroutine evaluate')[1].split('end subroutine evaluate')[0]
    trans = 'replaced-call' in feats
    res.nontrivial = (len([s for s in prog if s[0] == 'assign']) >= 2 and 'offset' in feats) or wrapped or trans
    if wrapped:
        res.tag('wrapped-line')
    L, K = Py.LAGS, Py.LEADS
    ops = count_ops(prog)
    dyadic = is_dyadic_linear(prog)
    names = list(Py.NAMES)
    for run in case['runs']:
        n = L + K + 1 + run.get('extra', 2)
        data = make_data(names, n, run.get('bases') or [[1.0, 2.0, 0.5, 4.0]], positive=not dyadic)
        for nm, val in (run.get('const') or {}).items():
            if nm in data:
                data[nm] = np.full(n, float(val))
        # (the span may be held in a NumPy array or a pandas Index - the labels are the positions in every case)
        sk = run.get('span_kind')
        if sk == 'np':
            span_p, span_f = np.arange(n), np.arange(n)
        elif sk == 'pd':
            import pandas as pd
            span_p, span_f = pd.Index(list(range(n))), pd.Index(list(range(n)))
        else:
            span_p, span_f = range(n), range(n)
        if sk:
            res.tag('span:' + sk)
        p = Py(span_p, **{k: v.copy() for k, v in data.items()})
        f = F(span_f, **{k: v.copy() for k, v in data.items()})
        entry = run['entry']
        T = L + run.get('tpos', 0) % max(1, n - L - K)
        if entry != 'evaluate':      # (one evaluation pass is specified for feasible periods only)
            if run.get('infeasible') == 'front' and L > 0:
                T = L - 1
            elif run.get('infeasible') == 'back' and K > 0:
                T = n - K
        t = T - n if run.get('negative') else T
        if entry in ('evaluate', 'solve_t') and run.get('oob') is not None:
            # a position outside the span altogether (both spellings): IndexError from both back-ends, nothing written
            t = (n + run['oob']) if not run.get('negative') else (-n - 1 - run['oob'])
        opts = dict(run.get('opts') or {})
        if run.get('recheck') is not None and len(Py.ENDOGENOUS) >= 1:
            # solve once, then edit the public `check` list of both twins and solve again (the measured call)
            R.quiet_call(attempt, p.solve, max_iter=3, failures='ignore', errors='ignore')
            R.quiet_call(attempt, f.solve, max_iter=3, failures='ignore', errors='ignore')
            for nm in names:
                f[nm] = np.asarray(p[nm]).copy()
            f.status = np.asarray(p.status).copy()
            f.iterations = np.asarray(p.iterations).copy()
            endo = list(Py.ENDOGENOUS)
            new_check = [endo[run['recheck'] % len(endo)]] if run.get('recheck_mode') != 'reversed' else endo[::-1]
            p.check = list(new_check)
            f.check = list(new_check)
        if run.get('presolve'):
            # both twins start from an already solved state (re-solving is where a stale comparison baseline shows)
            R.quiet_call(attempt, p.solve, max_iter=200, tol=1e-12, failures='ignore', errors='ignore')
            R.quiet_call(attempt, f.solve, max_iter=200, tol=1e-12, failures='ignore', errors='ignore')
            for nm in names:                       # identical starting point for the measured call
                f[nm] = np.asarray(p[nm]).copy()
            f.status = np.asarray(p.status).copy()
            f.iterations = np.asarray(p.iterations).copy()
        rep = Rep(run.get('rep'))       # the Fortran-backed twin receives the same values as NumPy scalars etc.
        detail = f'{text!r} entry={entry} t={t} n={n} {SC.opts_text(opts)} bases={run.get("bases")}'
        if not all(np.all(np.isfinite(np.asarray(p[nm]))) for nm in names):
            # the preparatory solves left a NaN/inf behind: the statement covers finite data only (Python's min/max and
            # Fortran's treat a NaN operand differently, for a start)
            res.tag('skipped:non-finite-starting-state')
            continue
        if entry != 'evaluate' and opts.get('errors', 'raise') != 'raise':
            # 'skip' / 'ignore' / 'replace' hide a non-finite intermediate value (overflow of a divergent iteration, say):
            # the statement covers runs whose values stay finite, so probe the same run under errors='raise' first
            probe = Py(range(n), **{k: np.asarray(p[k]).copy() for k in names})
            probe.status = np.asarray(p.status).copy()
            probe.check = list(p.check)
            pk = dict(opts, errors='raise')
            pr = R.quiet_call(attempt, probe.solve_t, t, **pk) if entry == 'solve_t' else R.quiet_call(attempt, probe.solve, **pk)
            if not pr.ok and type(pr.exc).__name__ == 'SolutionError':
                res.tag('skipped:non-finite-intermediate-values')
                continue
        if entry == 'evaluate':
            a = R.quiet_call(attempt, p._evaluate, t)
            b = R.quiet_call(attempt, f._evaluate, rep.int(t))
            tol = 0.0 if dyadic else OPS_TOL * ops
        elif entry == 'solve_t':
            a = R.quiet_call(attempt, p.solve_t, t, **opts)
            b = R.quiet_call(attempt, f.solve_t, rep.int(t), **rep.opts(opts))
            tol = 0.0 if dyadic else ITER_TOL
        else:
            skw = dict(opts)
            if run.get('infeasible') and not (L <= T <= n - 1 - K):
                # an explicit request to start (or end) the run at a period that cannot accommodate the lags/leads
                skw['start' if T < L else 'end'] = T
            a = R.quiet_call(attempt, p.solve, **skw)
            b = R.quiet_call(attempt, f.solve, **rep.opts(skw))
            tol = 0.0 if dyadic else ITER_TOL
        # the statement covers data for which values stay finite: skip runs in which the Python twin met a numerical error
        if not all(np.all(np.isfinite(np.asarray(p[nm]))) for nm in names) or \
                (not a.ok and type(a.exc).__name__ == 'SolutionError'):
            res.tag('skipped:non-finite-python-run')
            continue
        cls = entry + ('/out-of-span' if entry in ('evaluate', 'solve_t') and run.get('oob') is not None else
                       '/infeasible-period' if run.get('infeasible') and not (L <= T <= n - 1 - K) else
                       '/max_iter=0' if opts.get('max_iter', 100) == 0 and entry != 'evaluate' else
                       '/offset' if opts.get('offset') and entry != 'evaluate' else '')
        oa, ob = SC.outcome_of(a), SC.outcome_of(b)
        if oa[1] != ob[1]:
            res.fail(f'{cls}/exception-type', f'{detail}: Python {a!r}, Fortran {b!r}')
            continue
        # boundary: is the Python run's convergence decision within 1e-6*tol of tol?
        near_boundary = False
        if entry != 'evaluate' and not dyadic:
            tol_opt = opts.get('tol', 1e-10)
            q = Py(range(n), **{k: v.copy() for k, v in data.items()})
            its = [int(x) for x in p.iterations]
            for TT in [i for i, k in enumerate(its) if k > 0]:
                prev = None
                q2 = Py(range(n), **{k: np.asarray(p[k]).copy() for k in names})
                # re-evaluate once from the stored solution: |change| approximates the decisive difference
                before = np.array([q2[e][TT] for e in Py.ENDOGENOUS])
                R.quiet_call(attempt, q2._evaluate, TT)
                after = np.array([q2[e][TT] for e in Py.ENDOGENOUS])
                d = np.abs(after - before)
                if np.any(np.abs(d - tol_opt) <= 1e-6 * tol_opt):
                    near_boundary = True
        if oa[1] is None and repr(_plain(oa[0])) != repr(_plain(ob[0])) and not near_boundary:
            res.fail(f'{cls}/return-value', f'{detail}: Python returned {oa[0]!r}, Fortran {ob[0]!r}')
        # a non-convergent iteration may be chaotic: one-ulp differences between libm and NumPy are amplified without
        # bound, so values are compared after iterative solves only where the Python twin converged (or arithmetic is exact)
        unsolved = entry != 'evaluate' and not dyadic and any(str(x) == 'F' for x in p.status)
        if unsolved:
            res.tag('values-skipped:not-converged')
        for nm in ([] if unsolved else names):
            if not close(p[nm], f[nm], tol):
                res.fail(f'{cls}/values' + ('/dyadic' if dyadic else '') + lit, f'{detail}: {nm} Python {np.asarray(p[nm]).tolist()}, '
                         f'Fortran {np.asarray(f[nm]).tolist()} (tolerance {tol})')
                break
        if [str(x) for x in p.status] != [str(x) for x in f.status] and not near_boundary:
            res.fail(f'{cls}/status', f'{detail}: Python {list(p.status)}, Fortran {list(f.status)}')
        if [int(x) for x in p.iterations] != [int(x) for x in f.iterations]:
            if near_boundary:
                res.tag('boundary_skipped')
            else:
                res.fail(f'{cls}/iterations' + ('/dyadic' if dyadic else ''), f'{detail}: Python {list(p.iterations)}, Fortran {list(f.iterations)}')
    return res


# -- generators -------------------------------------------------------------------------------------------

F32_NUMBERS = ['0.5', '2.', '.25', '1.5', '0.125', '2', '3', '10', '1']


def restricted_programs(max_statements=3, max_leaves=6):
    """Grammar G restricted to the common subset; literals exact in binary32; no integer/integer division or power;
    no literal arguments of max/min (known finding S19)."""
    from hypothesis import strategies as st

    @st.composite
    def build(draw):
        n_stmt = draw(st.integers(1, max_statements))
        pool_v = draw(st.lists(st.sampled_from(G.PLAIN + ['x1', 'Y_', 'X_1']), min_size=2, max_size=5, unique=True))
        pool_p = draw(st.lists(st.sampled_from(['a', 'b', 'alpha_1']), max_size=2, unique=True))
        pool_e = draw(st.lists(st.sampled_from(['u', 'eps']), max_size=1, unique=True))

        def var():
            kinds = [st.sampled_from(pool_v).map(lambda nm: (nm, 'v'))] * 3
            if pool_p:
                kinds.append(st.sampled_from(pool_p).map(lambda nm: (nm, 'p')))
            if pool_e:
                kinds.append(st.sampled_from(pool_e).map(lambda nm: (nm, 'e')))
            idx = st.sampled_from([None, None, None, -1, -2, 1, ['+', 1], 0, -3])
            return st.tuples(st.one_of(*kinds), idx).map(lambda x: ['var', x[0][0], x[0][1], x[1]])

        real_leaf = var()
        num = st.sampled_from(F32_NUMBERS).map(lambda s: ['num', s])

        def is_int_literal_tree(e):
            return e[0] == 'num' and '.' not in e[1] or (e[0] in ('un', 'paren') and is_int_literal_tree(e[-1])) or \
                (e[0] == 'bin' and is_int_literal_tree(e[2]) and is_int_literal_tree(e[3]))

        def has_literal(e):
            return e[0] == 'num' or (e[0] in ('un', 'paren') and has_literal(e[-1]))

        def binop(args):
            op, l, r = args
            if _literal_only(l) and _literal_only(r):
                r = ['var', pool_v[0], 'v', None]     # no literal-only subtrees (S19), counted by construction
            if op == '**':
                # keep exponents small and bases positive-ish: exponent a small literal
                r = ['num', '2'] if not (r[0] == 'num') else r
            return ['bin', op, l, r]

        def call(args):
            fn, a = args
            a = [x if not _literal_only(x) else ['bin', '*', x, ['var', pool_v[0], 'v', None]] for x in a]
            if fn == 'log':
                a = [['call', 'abs', [a[0]]]] if a[0][0] != 'call' else a
                a = [['bin', '+', a[0], ['num', '0.5']]]
            if fn == 'exp':
                a = [['bin', '*', ['num', '0.125'], a[0]]]
            return ['call', fn, a]

        def extend(ch):
            return st.one_of(
                st.tuples(st.sampled_from(['+', '-', '*', '/', '+', '*', '**']), ch, ch).map(binop),
                st.tuples(st.just('un'), st.just('-'), ch).map(list),
                st.tuples(st.just('paren'), ch).map(list),
                st.tuples(st.sampled_from(['max', 'min']), st.lists(ch, min_size=2, max_size=2)).map(call),
                st.tuples(st.sampled_from(['exp', 'log', 'abs']), st.lists(ch, min_size=1, max_size=1)).map(call),
            )
        expr = st.recursive(st.one_of(real_leaf, real_leaf, num), extend, max_leaves=max_leaves)
        lhs = draw(st.lists(st.sampled_from(pool_v), min_size=min(n_stmt, len(pool_v)), max_size=min(n_stmt, len(pool_v)), unique=True))
        return [['assign', ['var', nm, 'v', None], draw(expr)] for nm in lhs]
    return build()


def runs_strategy():
    from hypothesis import strategies as st
    opts = st.fixed_dictionaries({}, optional={
        'min_iter': st.integers(0, 3), 'max_iter': st.sampled_from([0, 1, 2, 5, 40]), 'tol': st.sampled_from([0.5, 1e-6, 1e-10, 2.0 ** -10]),
        'failures': st.sampled_from(['raise', 'ignore']), 'offset': st.sampled_from([0, -1, 1]),
        # on finite data the numerical-error policy must not matter
        'errors': st.sampled_from(['raise', 'skip', 'ignore', 'replace']), 'catch_first_error': st.booleans(),
    })
    run = st.fixed_dictionaries({
        'entry': st.sampled_from(['evaluate', 'solve_t', 'solve', 'solve_t']),
        'tpos': st.integers(0, 3), 'negative': st.booleans(), 'extra': st.integers(0, 3), 'opts': opts,
        'presolve': st.sampled_from([False, False, True]), 'infeasible': st.sampled_from([None, None, None, 'front', 'back']),
        'recheck': st.sampled_from([None, None, None, 0, 1]), 'oob': st.sampled_from([None, None, None, None, 0, 1]),
        'rep': st.one_of(st.just([]), st.lists(st.integers(0, 11), min_size=1, max_size=4)),
        'span_kind': st.sampled_from([None, None, None, 'np', 'pd']),
        'bases': st.lists(st.lists(st.sampled_from([1.0, 2.0, 0.5, 4.0, 3.0, 0.25, 1.5]), min_size=2, max_size=4), min_size=1, max_size=3),
    })
    return st.lists(run, min_size=3, max_size=6)


def strategy():
    from hypothesis import strategies as st
    bo = st.sampled_from([None, None, None, {'min_lags': 2}, {'min_leads': 1}, {'lags_plus': 1}, {'leads_plus': 2},
                          {'lags_plus': 0, 'min_lags': 3}, {'lags_plus': 2, 'leads_plus': 1}, {'min_lags': 1, 'min_leads': 2}])
    return st.fixed_dictionaries({'prog': restricted_programs(), 'runs': runs_strategy(),
                                  'wrap_width': st.sampled_from([None, None, None, 60, 80, 120]), 'build_opts': bo})


def V(name, idx=None, kind='v'):
    return ['var', name, kind, idx]


def fixed_family():
    """Deterministic programs: boundary-sitting dyadic-linear models, long (wrapping) equations, many variables."""
    progs = []
    # constant-step model moving by exactly tol: Y = Y + 0.5  (tol = 0.5 must NOT converge)
    progs.append(([['assign', V('Y'), ['bin', '+', V('Y'), ['num', '0.5']]]],
                  [{'entry': 'solve_t', 'tpos': 0, 'opts': {'tol': 0.5, 'max_iter': 3, 'failures': 'ignore'}},
                   {'entry': 'solve', 'opts': {'tol': 0.5, 'max_iter': 2, 'failures': 'ignore'}},
                   {'entry': 'solve_t', 'tpos': 1, 'negative': True, 'opts': {'tol': 1.0, 'max_iter': 3, 'failures': 'ignore'}}]))
    # halving model: converges when the step drops below tol
    progs.append(([['assign', V('Y'), ['bin', '+', ['bin', '*', ['num', '0.5'], V('Y')], V('X')]],
                   ['assign', V('Z'), ['bin', '-', V('Y'), V('Z', -1)]]],
                  [{'entry': 'solve', 'opts': {'tol': 2.0 ** -k, 'max_iter': 40, 'failures': 'ignore'}} for k in (1, 4, 10)]
                  + [{'entry': 'solve_t', 'tpos': 1, 'opts': {'min_iter': m, 'max_iter': m + 1, 'tol': 0.25, 'failures': 'ignore'}} for m in (0, 2, 3)]
                  + [{'entry': 'solve', 'presolve': True, 'opts': {'offset': -1, 'max_iter': 40, 'tol': 2.0 ** -12}},
                     {'entry': 'solve', 'presolve': True, 'opts': {'offset': -1, 'max_iter': 1, 'tol': 2.0 ** -12, 'failures': 'ignore'}},
                     {'entry': 'solve_t', 'presolve': True, 'tpos': 1, 'opts': {'offset': -1, 'max_iter': 40, 'tol': 2.0 ** -12}},
                     {'entry': 'solve_t', 'infeasible': 'front', 'opts': {'max_iter': 5}},
                     {'entry': 'solve', 'infeasible': 'front', 'opts': {'max_iter': 5}},
                     {'entry': 'solve_t', 'infeasible': 'front', 'negative': True, 'opts': {'max_iter': 5}},
                     {'entry': 'evaluate', 'infeasible': 'front'},
                     {'entry': 'solve', 'opts': {'offset': -1, 'max_iter': 40, 'tol': 0.125}},
                     {'entry': 'solve', 'opts': {'offset': -1, 'max_iter': 1, 'tol': 0.125, 'failures': 'ignore'}},
                     {'entry': 'solve_t', 'tpos': 1, 'opts': {'offset': 1, 'max_iter': 1, 'tol': 0.125, 'failures': 'ignore'}}]))
    # the last check variable is the one that keeps moving (a 0-based check index never tests it)
    progs.append(([['assign', V('A'), V('X')], ['assign', V('B'), ['bin', '+', ['bin', '*', ['num', '0.5'], V('B')], V('A')]]],
                  [{'entry': 'solve_t', 'tpos': 0, 'opts': {'tol': 2.0 ** -20, 'max_iter': 60}},
                   {'entry': 'solve', 'opts': {'tol': 2.0 ** -20, 'max_iter': 60}}]))
    # magnitudes at which a single-precision intermediate would flush to zero / overflow / round across the tolerance
    progs.append(([['assign', V('X'), ['bin', '+', ['bin', '*', V('a', None, 'p'), V('X')], V('Z')]]],
                  [{'entry': 'solve_t', 'tpos': 0, 'const': {'a': 0.5, 'Z': 1e-50, 'X': 0.0}, 'opts': {'tol': 1e-60, 'max_iter': 60, 'failures': 'ignore'}},
                   {'entry': 'solve', 'const': {'a': 0.5, 'Z': 1e-50, 'X': 0.0}, 'opts': {'tol': 1e-60, 'max_iter': 60, 'failures': 'ignore'}},
                   {'entry': 'solve_t', 'tpos': 0, 'const': {'a': 0.0, 'Z': 1e40, 'X': 0.0}, 'opts': {'tol': 1e41, 'max_iter': 3, 'failures': 'ignore'}},
                   {'entry': 'solve_t', 'tpos': 0, 'const': {'a': 0.0, 'Z': 1e-10 * (1 - 1e-9), 'X': 0.0}, 'opts': {'max_iter': 1, 'failures': 'ignore'}},
                   {'entry': 'solve', 'const': {'a': 0.0, 'Z': 1e-10 * (1 - 1e-9), 'X': 0.0}, 'opts': {'max_iter': 1, 'failures': 'ignore'}},
                   {'entry': 'solve_t', 'tpos': 0, 'const': {'a': 0.0, 'Z': 0.5 * (1 - 2.0 ** -40), 'X': 0.0}, 'opts': {'tol': 0.5, 'max_iter': 1, 'failures': 'ignore'}},
                   {'entry': 'solve_t', 'tpos': 0, 'const': {'a': 0.5, 'Z': 1e300, 'X': 0.0}, 'opts': {'tol': 1e290, 'max_iter': 60, 'failures': 'ignore'}}]))
    # the check list is edited between two solves: only the fast variable is tested afterwards / only the slow one
    progs.append(([['assign', V('A'), ['bin', '*', ['num', '0.5'], V('X')]],
                   ['assign', V('B'), ['bin', '+', ['bin', '*', ['num', '0.5'], V('B')], V('A')]]],
                  [{'entry': 'solve', 'recheck': 0, 'opts': {'tol': 2.0 ** -20, 'max_iter': 60, 'failures': 'ignore'}},
                   {'entry': 'solve_t', 'tpos': 1, 'recheck': 1, 'opts': {'tol': 2.0 ** -20, 'max_iter': 60, 'failures': 'ignore'}},
                   {'entry': 'solve', 'recheck': 1, 'opts': {'tol': 2.0 ** -20, 'max_iter': 5, 'failures': 'ignore'}}]))
    # parameters before exogenous variables in the script (numbering), errors, lags and leads
    progs.append(([['assign', V('Y'), ['bin', '+', ['bin', '*', V('a', None, 'p'), V('X', -1)],
                                       ['bin', '-', V('u', None, 'e'), ['bin', '*', V('b', -1, 'p'), V('W', 1)]]]]],
                  [{'entry': 'evaluate', 'tpos': 0}, {'entry': 'evaluate', 'tpos': 1, 'negative': True},
                   {'entry': 'solve', 'opts': {'max_iter': 5}},
                   {'entry': 'solve_t', 'infeasible': 'back', 'opts': {'max_iter': 5}},
                   {'entry': 'solve', 'infeasible': 'back', 'opts': {'max_iter': 5}},
                   {'entry': 'solve', 'infeasible': 'front', 'opts': {'max_iter': 5}},
                   {'entry': 'solve_t', 'infeasible': 'front', 'opts': {'max_iter': 5}},
                   {'entry': 'evaluate', 'infeasible': 'back', 'negative': True}]))
    # the deepest lag and the furthest lead are on an error term only (MA-style disturbance)
    progs.append(([['assign', V('Y'), ['bin', '+', ['bin', '+', ['bin', '*', V('rho', None, 'p'), V('Y', -1)], V('X')],
                                       ['bin', '+', ['bin', '*', V('theta', None, 'p'), V('u', -2, 'e')],
                                        ['bin', '*', V('phi', None, 'p'), V('u', 1, 'e')]]]]],
                  [{'entry': 'evaluate', 'tpos': 0}, {'entry': 'solve', 'opts': {'max_iter': 5}},
                   {'entry': 'solve', 'infeasible': 'front', 'opts': {'max_iter': 5}},
                   {'entry': 'solve', 'infeasible': 'back', 'opts': {'max_iter': 5}},
                   {'entry': 'solve_t', 'infeasible': 'front', 'opts': {'max_iter': 5}},
                   {'entry': 'solve_t', 'infeasible': 'back', 'negative': True, 'opts': {'max_iter': 5}}]))
    progs.append(([['assign', V('Y'), ['bin', '+', V('X', -1), ['bin', '*', V('a', -3, 'p'), V('Z', 2)]]]],
                  [{'entry': 'solve', 'infeasible': 'front', 'opts': {'max_iter': 5}},
                   {'entry': 'solve', 'infeasible': 'back', 'opts': {'max_iter': 5}}]))
    # long equation that needs continuation lines; many variables
    many = [V('X%d' % i, -(i % 3)) for i in range(40)]
    long_rhs = many[0]
    for v in many[1:]:
        long_rhs = ['bin', '+', long_rhs, ['bin', '*', ['num', '0.5'], v]]
    progs.append(([['assign', V('Total'), long_rhs], ['assign', V('Half'), ['bin', '*', ['num', '0.5'], V('Total')]]],
                  [{'entry': 'evaluate', 'tpos': 0}, {'entry': 'solve', 'opts': {'max_iter': 3}}]))
    long_names = [V('a_rather_long_variable_name_number_%d' % i) for i in range(9)]
    rhs = long_names[0]
    for v in long_names[1:]:
        rhs = ['bin', '*', rhs, ['call', 'max', [v, ['bin', '-', v, long_names[0]]]]]
    progs.append(([['assign', V('Product_of_many_long_names'), rhs]], [{'entry': 'evaluate', 'tpos': 0}]))
    # offsets that leave the span at the first / last period of a multi-period solve; positions outside the span
    progs.append(([['assign', V('Y'), ['bin', '*', ['num', '0.5'], V('X')]]],
                  [{'entry': 'solve', 'opts': {'offset': 1}}, {'entry': 'solve', 'opts': {'offset': -1}},
                   {'entry': 'solve', 'opts': {'offset': 1, 'failures': 'ignore', 'max_iter': 1}},
                   {'entry': 'solve_t', 'tpos': 0, 'opts': {'offset': -1}}, {'entry': 'solve_t', 'tpos': 0, 'negative': True, 'opts': {'offset': -5}},
                   {'entry': 'evaluate', 'oob': 0}, {'entry': 'evaluate', 'oob': 1, 'negative': True},
                   {'entry': 'evaluate', 'oob': 3}, {'entry': 'evaluate', 'oob': 0, 'negative': True},
                   {'entry': 'solve_t', 'oob': 0}, {'entry': 'solve_t', 'oob': 1, 'negative': True},
                   {'entry': 'solve_t', 'oob': 2, 'opts': {'failures': 'ignore', 'max_iter': 2}}, {'entry': 'solve_t', 'oob': 0, 'negative': True}]))
    progs.append(([['assign', V('Y'), ['bin', '+', V('X', -1), V('Z', 1)]]],
                  [{'entry': 'evaluate', 'oob': 0}, {'entry': 'evaluate', 'oob': 0, 'negative': True},
                   {'entry': 'solve_t', 'oob': 1}, {'entry': 'solve_t', 'oob': 1, 'negative': True}, {'entry': 'solve_t', 'oob': 0},
                   {'entry': 'solve', 'opts': {'offset': 2}}, {'entry': 'solve', 'opts': {'offset': -2}}]))
    # max_iter = 0
    progs.append(([['assign', V('Y'), ['bin', '*', ['num', '0.5'], V('Y')]]],
                  [{'entry': 'solve_t', 'tpos': 0, 'opts': {'max_iter': 0, 'failures': f}} for f in ('raise', 'ignore')]
                  + [{'entry': 'solve', 'opts': {'max_iter': 0, 'failures': 'ignore'}}]))
    # the span held in a NumPy array / a pandas Index
    progs.append(([['assign', V('Y'), ['bin', '+', ['bin', '*', ['num', '0.5'], V('Y', -1)], V('X')]]],
                  [{'entry': e, 'tpos': 0, 'span_kind': k, 'opts': {'max_iter': 5, 'failures': 'ignore'}}
                   for k in ('np', 'pd') for e in ('solve', 'solve_t', 'evaluate')]
                  + [{'entry': 'solve', 'span_kind': k, 'extra': 0} for k in ('np', 'pd')]))
    # names that end in (or contain) other names of the same equation: K / dK, W / RW, X / X_1 / aX (textual rewriting
    # of NAME[t+k] must not reach into a longer identifier)
    runs = [{'entry': 'evaluate', 'tpos': 0}, {'entry': 'solve', 'opts': {'max_iter': 5, 'failures': 'ignore'}}]
    progs.append(([['assign', V('K'), ['bin', '+', V('K', -1), V('dK')]]], runs))
    progs.append(([['assign', V('W'), ['bin', '*', V('RW'), V('P')]], ['assign', V('P'), ['bin', '+', V('P', -1), V('dP', -1)]]], runs))
    progs.append(([['assign', V('dK'), ['bin', '-', V('K'), ['bin', '*', V('d', None, 'p'), V('K', -1)]]]], runs))
    progs.append(([['assign', V('X'), ['bin', '+', ['bin', '+', V('aX'), V('X_1', 1)], V('X', -1)]]], runs))
    return progs


def gen_fixed():
    def gen():
        for prog, runs in fixed_family():
            yield {'prog': prog, 'runs': runs}
        # the wrapping equations again under other line widths
        fam = fixed_family()
        for ww in (60, 72, 120):   # (132 + indentation and continuation markers exceeds the free-form line limit: the caller's choice)
            for prog, runs in fam:
                if any('Total' in str(s_) or 'Product' in str(s_) for s_ in prog):
                    yield {'prog': prog, 'runs': runs[:1], 'wrap_width': ww}
    return gen


def gen_witnesses():
    """Known-finding witnesses (S19): literals that Fortran reads differently."""
    def gen():
        yield {'prog': [['assign', V('Y'), ['bin', '*', ['num', '0.1'], V('X')]]], 'runs': [{'entry': 'evaluate', 'tpos': 0}]}
        yield {'prog': [['assign', V('Y'), ['bin', '*', ['bin', '/', ['num', '1'], ['num', '2']], V('X')]]], 'runs': [{'entry': 'evaluate', 'tpos': 0}]}
        yield {'prog': [['assign', V('Y'), ['call', 'max', [V('X'), ['num', '0']]]]], 'runs': [{'entry': 'evaluate', 'tpos': 0}]}
        yield {'prog': [['assign', V('Y'), ['call', 'min', [['num', '0.5'], V('X')]]]], 'runs': [{'entry': 'evaluate', 'tpos': 0}]}
        yield {'prog': [['assign', V('Y'), ['bin', '*', V('X'), ['call', 'exp', [['bin', '/', ['num', '0.5'], ['num', '1.5']]]]]]],
               'runs': [{'entry': 'evaluate', 'tpos': 0}]}
    return gen


def phases(tier):
    quick = tier == 'quick'
    return [
        Phase('fixed-family', check_case, gen=gen_fixed(), exhaustive=True, shards=8, native=True),
        Phase('literal-witnesses', check_case, gen=gen_witnesses(), exhaustive=True, shards=4, native=True),
        Phase('generated', check_case, strategy=strategy, examples=1600 if quick else 12000, native=True),
    ]
