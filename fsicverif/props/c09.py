"""C09 - container series keep their length and dtype under every assignment history."""
import itertools
from collections.abc import Sequence

import numpy as np

from .. import env  # noqa: F401
from ..core import Phase, Result
from .. import containerops as CO
from .. import snapshot, spans
from ..util import same_array

ID = 'C09'
TITLE = 'Container series keep their length and dtype under every assignment history'
LEVEL = 'exploration'
DESIGN_REF = 'DESIGN.md section 5, C09; 4.7'
RULE = (
    'histories (lists of operations, model-based: a shadow dict of plain arrays predicts every single-variable '
    'assignment) over the alphabet {add_variable, attribute set, item set, (name,label) set, (name,label-slice) set, '
    'replace_values, values setter, add_attribute, strict toggle, in-place element write} with operands {scalars incl. '
    'NaN/bool/str, lists, tuples, ranges, nested lists whose outer length equals / differs from the span, NumPy arrays '
    'of rank 0/1/2 and right/wrong length} and names {existing, new, near-miss, duplicate}, on VectorContainer, BaseModel '
    'and BaseLinker with spans of length 1..5: every single operation and every ordered pair over a reduced operand set '
    'is enumerated, longer histories (up to 25 steps) are drawn by Hypothesis. Oracle after every step: each series is a '
    '1-D ndarray of span length with its creation dtype, `values` is the stack in declaration order, `size` its element '
    'count; a single-variable assignment succeeds iff the shadow rule accepts it and then stores exactly the predicted '
    'array, otherwise it raises and the full snapshot is unchanged; under strict an unknown name raises AttributeError '
    'Also: objects that start without any variable; a `construction` phase (dtype x default_value x initial values: each class '
    'variable is the series add_variable would create); the `values` setter refuses arrays of other dimensions; the set of '
    'existing attribute names is kept by the check itself (updates of existing names keep working under strict). '
    '(naming a case-variant variable) and adds nothing. Non-trivial: a failing assignment followed by a successful one, '
    'or an operand of rank != 1, or a dtype-crossing assignment. Distinct = distinct case JSON.'
)
ASSUMPTIONS = ['bulk operations (replace_values with several names, values setter) may apply partially before raising: only the '
               'per-series invariants are asserted after them',
               'a fixed-width string series holds values cast to its creation dtype',
               'add_variable flattens nested sequences (documented "cast to a 1D array"): accepted when the flattened length fits']
TECHNIQUE = 'model-based testing of operation histories (Hypothesis lists of operations + exhaustive singles/pairs) against a shadow model with per-step invariants'
LEVEL_TEXT = ('Operation histories are applied to the real object and to a shadow dict of arrays; invariants and predictions are '
              'checked after every step; singles and ordered pairs over a reduced operand set are exhaustive.')
LEVEL_NOTE = 'Trusted: NumPy assignment semantics used by the shadow rules. Not covered: histories longer than 25 steps.'


class Reject(Exception):
    """reason: 'fit' (wrong length / shape / name - the cases the statement lists) or 'value' (an element that cannot
    be converted to the series' dtype: the statement only requires the invariants then, NumPy may assign partially)."""

    def __init__(self, reason='fit'):
        super().__init__(reason)
        self.reason = reason


def _shape_of(value):
    try:
        return np.array(value, dtype=object).shape
    except Exception:  # noqa: BLE001
        return None


def rule_whole(cur, value, n):
    if isinstance(value, Sequence) and not isinstance(value, str):
        try:
            arr = np.array(value, dtype=cur.dtype)
        except Exception:  # noqa: BLE001
            raise Reject('value' if _shape_of(value) == (n,) else 'fit')
        if arr.shape != (n,):
            raise Reject()
        return arr
    return rule_index(cur, slice(None), value)


def rule_index(cur, index, value):
    tmp = cur.copy()
    try:
        tmp[index] = value
    except Exception:  # noqa: BLE001
        shape = _shape_of(value)
        reason = 'fit'
        if shape is not None:
            try:
                cur.copy()[index] = np.zeros(shape, dtype=cur.dtype)
                reason = 'value'      # the shape fits; an element cannot be converted
            except Exception:  # noqa: BLE001
                reason = 'fit'
        raise Reject(reason)
    return tmp


def rule_add(value, dtype, n):
    try:
        if isinstance(value, Sequence) and not isinstance(value, str):
            arr = np.array(value).flatten()
        else:
            arr = np.full(n, value)
        if dtype is not None:
            arr = arr.astype(dtype)
    except Exception:  # noqa: BLE001
        raise Reject()
    if arr.ndim != 1 or arr.shape[0] != n:
        raise Reject()
    return arr


def check_case(case):
    kind = case['kind']
    desc = case['span']
    labels = spans.labels(desc)
    n = len(labels)
    want_dtype = {None: None, 'int': int, 'float32': np.float32, 'bool': bool}[case.get('dtype')]
    obj = CO.make_object(kind, desc, strict=case.get('strict', False), dtype=want_dtype, strict_rep=case.get('strict_rep', 0))
    res = Result(classes=['object:' + kind])
    if want_dtype is not None and 'container' not in kind:
        # created with a default dtype: the class's own variables carry it from the start
        res.tag('created-with-dtype:' + case['dtype'])
        for nm in type(obj).NAMES:
            got_dt = obj.__dict__['_' + nm].dtype
            if got_dt != np.dtype(want_dtype):
                res.fail(f'creation/dtype/{kind}', f'{kind} created with dtype={case["dtype"]}: variable {nm} has dtype {got_dt}')
        if res.violations:
            return res
    shadow = {nm: np.array(obj.__dict__['_' + nm]) for nm in CO.variables(obj)}
    creation = {nm: a.dtype for nm, a in shadow.items()}
    failed_before = False
    nontrivial = False
    operands_kept = []
    # the non-variable names that exist: the ones the object was created with plus the ones this history has added (kept by
    # the check itself - the object's own record is what is being examined)
    known = set(obj.__dict__['_attributes'])
    added = set()

    def invariants(step, op):
        for nm in CO.variables(obj):
            a = obj.__dict__.get('_' + nm)
            what = None
            if not isinstance(a, np.ndarray):
                what = 'not-ndarray'
            elif a.ndim != 1:
                what = 'ndim!=1'
            elif len(a) != n:
                what = 'length'
            elif nm in creation and a.dtype != creation[nm]:
                what = 'dtype'
            if what:
                res.fail(f'invariant/{what}/op={op[0]}/operand={opclass(op)}',
                         f'{kind} span {labels!r}: after step {step} {op}: {nm} is {a!r} (creation dtype {creation.get(nm)})')
                return False
        names = CO.value_names(obj)
        try:
            vals = obj.values
            stack = np.array([obj.__dict__['_' + nm] for nm in names])
            if vals.shape != stack.shape or not same_array(vals, stack):
                res.fail(f'invariant/values-stack/op={op[0]}', f'{kind}: after step {step} {op}: values {vals!r} != stack of rows')
            own = len(names) * n
            size = obj.size if 'linker' not in kind else obj.sizes[obj.name]
            if size != own:
                res.fail(f'invariant/size/op={op[0]}', f'{kind}: after step {step} {op}: size {size}, {len(names)} x {n}')
        except Exception as e:  # noqa: BLE001
            res.fail(f'invariant/values-raised-{type(e).__name__}/op={op[0]}', f'{kind}: after step {step} {op}: .values raised {e!r}')
            return False
        return True

    def opclass(op):
        for part in op:
            if isinstance(part, dict):
                return CO.operand_class(part)
        return '-'

    for step, op in enumerate(case['ops']):
        if any(isinstance(part, list) and part[:1] == ['under'] for part in op[1:2]) and \
                not (obj.__dict__['_strict'] and op[0] == 'setattr'):
            # `obj._X = ...` pokes at a private slot; only the strict clause ("no assignment can create a new
            # non-variable attribute") speaks about it, so it is applied under strict only
            continue
        before = snapshot.snapshot(obj)
        keys_before = set(obj.__dict__)
        n_attrs_before = len(obj.__dict__['_attributes'])
        k = op[0]
        verdict = 'any'          # 'ok' (with prediction), 'reject', or 'any'
        predicted = None
        target = None
        strict_now = obj.__dict__['_strict']
        vs = CO.variables(obj)
        try:
            if k in ('setattr', 'setitem'):
                name = CO.pick_name(obj, op[1])
                value = CO.dec_operand(op[2])
                if name in vs:
                    target, predicted = name, rule_whole(shadow[name], value, n)
                    verdict = 'ok'
                elif k == 'setitem':
                    raise Reject()
                elif strict_now and name not in known and name != 'strict':
                    verdict = 'strict-reject'
                elif name in known and name in added:
                    verdict = 'attribute-update'       # an existing ad hoc name: updates keep working, strict or not
                else:
                    verdict = 'any'
            elif k == 'setlabel':
                name = CO.pick_name(obj, op[1])
                if name not in vs:
                    raise Reject()
                target, predicted = name, rule_index(shadow[name], op[2] % n, CO.dec_operand(op[3]))
                verdict = 'ok'
            elif k == 'setslice':
                name = CO.pick_name(obj, op[1])
                if name not in vs:
                    raise Reject()
                a = 0 if op[2] is None else op[2] % n
                b = n - 1 if op[3] is None else op[3] % n
                target, predicted = name, rule_index(shadow[name], slice(a, b + 1, op[4]), CO.dec_operand(op[5]))
                verdict = 'ok'
            elif k == 'inplace':
                name = CO.pick_name(obj, op[1])
                if name not in vs:
                    raise Reject()          # (an object without variables: there is no series to write into)
                target, predicted = name, rule_index(shadow[name], op[2] % n, CO.dec_scalar(op[3]))
                verdict = 'ok'
            elif k == 'add_variable':
                name = CO.pick_name(obj, op[1])
                if name in vs:
                    raise Reject()
                if name in obj.__dict__['_attributes'] or name in ('values', 'size', 'strict', 'nbytes', 'eval', 'copy'):
                    verdict = 'any'
                else:
                    dtype = CO.DTYPES[op[3]]
                    if dtype is None and 'container' not in kind:
                        dtype = obj.__dict__['dtype']
                    target, predicted = name, rule_add(CO.dec_operand(op[2]), dtype, n)
                    verdict = 'ok'
            elif k == 'add_attribute':
                if op[1] in vs or op[1] in known:
                    raise Reject()
                verdict = 'any'
            elif k == 'values':
                # documented: the replacement is a scalar or a 2-D array "with identical dimensions to `values`"
                value = CO.dec_operand(op[1])
                # (without any variable the stack has no rows, whatever its nominal shape: nothing is asserted then)
                if isinstance(value, np.ndarray) and CO.value_names(obj) and value.shape != (len(CO.value_names(obj)), n):
                    verdict = 'reject-bulk'
        except Reject as r:
            verdict = 'reject' if r.reason == 'fit' else 'reject-value'

        out = CO.apply_op(obj, op, labels, keep=operands_kept)
        oc = opclass(op)
        if out.ok and operands_kept:
            # scribble over the arrays that were handed in: the container must hold its own data
            snap_mid = {nm: np.array(obj.__dict__['_' + nm]) for nm in CO.variables(obj)}
            for arr in operands_kept:
                if isinstance(arr, np.ndarray) and arr.size and arr.dtype.kind in 'fiub':
                    try:
                        arr[...] = arr.dtype.type(77)
                    except Exception:  # noqa: BLE001
                        pass
                elif type(arr).__name__ == 'array':
                    for j in range(len(arr)):
                        arr[j] = 77
            for nm, was in snap_mid.items():
                if not same_array(obj.__dict__['_' + nm], was):
                    res.fail(f'operand-still-attached/op={k}/operand={oc}', f'{kind} span {labels!r}: after {op} the series {nm} follows '
                             f'later changes of the array that was passed in')
                    break
        del operands_kept[:]
        detail = f'{kind} span {labels!r} strict={strict_now}: step {step} {op} (history {case["ops"][:step]})'
        if oc in ('nested', 'np-rank2', 'np-rank0'):
            nontrivial = True
        if verdict == 'reject':
            if out.ok:
                res.fail(f'accepted-unfit/op={k}/operand={oc}', f'{detail}: succeeded although it cannot fit')
            else:
                failed_before = True
                d = snapshot.first_diff_key(before, snapshot.snapshot(obj))
                if d:
                    res.fail(f'failed-assignment-changed-state/op={k}/operand={oc}', f'{detail}: raised {out.exc_name} but changed {d}')
        elif verdict == 'reject-bulk':
            nontrivial = True
            if out.ok:
                res.fail(f'accepted-unfit/op={k}/operand={oc}', f'{detail}: succeeded although the array has shape '
                         f'{CO.dec_operand(op[1]).shape}, `values` has {(len(CO.value_names(obj)), n)}')
        elif verdict == 'reject-value':
            if out.ok:
                res.fail(f'accepted-unconvertible/op={k}/operand={oc}', f'{detail}: succeeded although an element cannot be converted')
        elif verdict == 'strict-reject':
            name = CO.pick_name(obj, op[1])
            if out.ok or not isinstance(out.exc, (AttributeError, NotImplementedError)):
                # (NotImplementedError is the documented outcome when several variables differ only by case)
                res.fail(f'strict/new-attribute-not-rejected/op={k}', f'{detail}: {out!r}')
            elif set(obj.__dict__) - keys_before or len(obj.__dict__['_attributes']) != n_attrs_before:
                res.fail(f'strict/attribute-created/op={k}', f'{detail}: __dict__ gained {sorted(set(obj.__dict__) - keys_before)}, '
                         f'attributes {obj.__dict__["_attributes"][n_attrs_before:]}')
            elif isinstance(out.exc, AttributeError) and "Did you mean: '" in str(out.exc) and \
                    str(out.exc).split("Did you mean: '")[1].split("'")[0] not in CO.value_names(obj):
                # "reported with the closest variable": a suggestion, when there is one, names a variable of the object
                res.fail('strict/suggestion-is-not-a-variable', f'{detail}: message {out.exc}; variables {CO.value_names(obj)}')
            elif op[1][0] == 'near' and vs:
                orig = vs[op[1][1] % len(vs)]
                lowers = [v.lower() for v in vs]
                if lowers.count(orig.lower()) == 1 and name.lower() == orig.lower() and orig in CO.value_names(obj) \
                        and isinstance(out.exc, AttributeError) and f"'{orig}'" not in str(out.exc):
                    res.fail('strict/near-miss-not-suggested', f'{detail}: message {out.exc} does not name {orig!r}')
            d = snapshot.first_diff_key(before, snapshot.snapshot(obj))
            if d:
                res.fail(f'strict/rejected-assignment-changed-state/op={k}', f'{detail}: changed {d}')
        elif verdict == 'attribute-update':
            nontrivial = nontrivial or bool(strict_now)
            if not out.ok:
                res.fail(f'existing-attribute-update-rejected/strict={bool(strict_now)}', f'{detail}: {out!r}; the name was added earlier in this history')
        elif verdict == 'ok':
            if not out.ok:
                res.fail(f'rejected-fitting/op={k}/operand={oc}/{out.exc_name}', f'{detail}: {out!r}, the shadow rule accepts it '
                         f'(expected {predicted!r})')
            else:
                if failed_before:
                    nontrivial = True
                got = obj.__dict__.get('_' + target)
                if k == 'add_variable':
                    creation[target] = predicted.dtype
                    if CO.variables(obj)[-1] != target:
                        res.fail('add_variable/not-last-in-order', f'{detail}: index {CO.variables(obj)}')
                if not isinstance(got, np.ndarray) or got.dtype != predicted.dtype or not same_array(got, predicted):
                    if isinstance(got, np.ndarray) and got.ndim == 1 and len(got) == n and got.dtype == predicted.dtype:
                        res.fail(f'wrong-contents/op={k}/operand={oc}', f'{detail}: {target} = {got!r}, shadow predicts {predicted!r}')
                    # shape / dtype problems are reported by the invariants below with their own key
                else:
                    if predicted.dtype.kind != np.asarray(CO.dec_operand(op[-1])).dtype.kind if isinstance(op[-1], dict) else False:
                        nontrivial = True
                shadow[target] = predicted
        else:
            # unspecified / bulk: resynchronise the shadow from the object if the invariants hold
            pass
        if out.ok and ((k == 'setattr' and verdict in ('any', 'attribute-update') and name not in vs) or k == 'add_attribute'):
            nm_ = name if k == 'setattr' else op[1]
            if nm_ not in known:
                known.add(nm_)
                added.add(nm_)
        if not invariants(step, op):
            break
        if verdict != 'ok' or not out.ok:
            # resynchronise (bulk operations, attribute creation, etc.)
            for nm in CO.variables(obj):
                if nm not in creation:
                    creation[nm] = obj.__dict__['_' + nm].dtype
                shadow[nm] = np.array(obj.__dict__['_' + nm])
        else:
            # all other variables must be untouched by a single-variable assignment
            for nm in CO.variables(obj):
                if nm != target and nm in shadow and not same_array(obj.__dict__['_' + nm], shadow[nm]):
                    res.fail(f'other-variable-changed/op={k}', f'{detail}: {nm} changed to {obj.__dict__["_" + nm]!r}')
        if res.violations:
            break
    res.nontrivial = nontrivial
    return res


# -- construction: a variable given to the constructor is created as add_variable would create it --------------------


def check_construction(case):
    """Models / linkers built with a default dtype, a default value and initial values: every class variable is the series
    `add_variable(name, initial value or default value, dtype=...)` creates (the dtype it is created with includes the
    width of a string dtype), or construction raises when that series cannot be made."""
    import fsic
    kind = case['kind']
    span = spans.build(case['span'])
    n = len(span)
    dtype = CO.DTYPES[case.get('dtype')]
    kw = {}
    if 'dtype' in case and case['dtype'] is not None:
        kw['dtype'] = dtype
    if 'default' in case:
        kw['default_value'] = CO.dec_scalar(case['default'])
    init = {nm: CO.dec_operand(o) for nm, o in (case.get('init') or {}).items()}

    class M(fsic.BaseModel):
        ENDOGENOUS = ['X']
        EXOGENOUS = ['Y', 'Z']
        NAMES = ENDOGENOUS + EXOGENOUS
        CHECK = ENDOGENOUS

    class Sub(fsic.BaseModel):
        ENDOGENOUS = ['A']
        NAMES = ENDOGENOUS
        CHECK = ENDOGENOUS

    class L(fsic.BaseLinker):
        ENDOGENOUS = ['X']
        EXOGENOUS = ['Y', 'Z']
        NAMES = ENDOGENOUS + EXOGENOUS
        CHECK = ENDOGENOUS
    from ..util import attempt
    if kind == 'model':
        made = attempt(lambda: M(span, **kw, **init))
    else:
        made = attempt(lambda: L({'a': Sub(span)}, **kw, **init))
    res = Result(classes=['construction', 'object:' + kind, 'dtype:' + str(case.get('dtype'))])
    res.nontrivial = bool(init) and case.get('dtype') is not None
    detail = f'{kind}(span {list(span)!r}, {kw}, ' + ', '.join(f'{k}={v!r}' for k, v in init.items()) + ')'
    default = kw.get('default_value', 0.0)
    eff_dtype = dtype if kw.get('dtype') is not None else float
    want = {}
    unfit = None
    for nm in ('X', 'Y', 'Z'):
        try:
            want[nm] = rule_add(init.get(nm, default), eff_dtype, n)
        except Reject:
            unfit = nm
    if unfit:
        if made.ok:
            res.fail('construction/accepted-unfit', f'{detail}: succeeded although {unfit} cannot be made a series of {n} period(s)')
        return res
    if not made.ok:
        res.fail(f'construction/raised-{made.exc_name}', f'{detail}: {made!r}; add_variable would create {want}')
        return res
    obj = made.value
    for nm, arr in want.items():
        got = obj.__dict__.get('_' + nm)
        if not isinstance(got, np.ndarray) or got.shape != arr.shape:
            res.fail('construction/shape', f'{detail}: {nm} is {got!r}')
        elif got.dtype != arr.dtype:
            res.fail(f'construction/dtype/{arr.dtype.kind}', f'{detail}: {nm} has dtype {got.dtype}, add_variable gives {arr.dtype}')
        elif not same_array(got, arr):
            res.fail('construction/contents', f'{detail}: {nm} = {got!r}, expected {arr!r}')
    return res


def gen_construction():
    def gen():
        defaults = [None, {'s': '-'}, {'s': 'abcdef'}, 7, True, 2.5, 'nan']
        for kind in ('model', 'linker'):
            for desc in SPANS[:2]:
                n = len(spans.labels(desc))
                inits = [{}, {'X': {'scalar': {'s': 'low'}}}, {'X': {'list': [{'s': 'low'}, {'s': 'middle'}, {'s': 'hi'}][:n]}},
                         {'Y': {'np': ['longer'] * n, 'dtype': 'str'}}, {'X': {'list': [1] * n}, 'Z': {'scalar': 2.5}},
                         {'X': {'np': [1.5] * n, 'dtype': 'float'}}, {'Z': {'list': [1] * (n + 1)}}, {'X': {'tuple': [2.5] * n}},
                         {'Y': {'scalar': True}}, {'X': {'nested': [[1] * n]}}, {'X': {'range': n}}]
                for dt in (None, 'float', 'int', 'bool', 'str', 'U2'):
                    for d in defaults:
                        for init in inits:
                            case = {'kind': kind, 'span': desc, 'dtype': dt, 'init': init}
                            if d is not None:
                                case['default'] = d
                            yield case
    return gen


SPANS = [{'k': 'range', 'start': 3, 'n': 3, 'step': 1}, {'k': 'list', 'items': ['a', 'b']},
         {'k': 'range', 'start': 0, 'n': 1, 'step': 1}, {'k': 'list', 'items': [2000, 2001, 2002, 2003]},
         {'k': 'list', 'items': ['a', 0, 2.5, {'t': [1, 2]}, -1]}]


def reduced_ops(n):
    sel = [['var', 0], ['var', 1], ['var', 3], ['new', 'Q'], ['near', 0], ['under', 0], ['under', 2]]
    operands = [{'scalar': 7}, {'scalar': 'nan'}, {'scalar': {'s': 'zz'}}, {'list': [1] * n}, {'list': [1] * (n + 1)},
                {'tuple': [2.5] * n}, {'range': n}, {'nested': [[1, 2]] * n}, {'nested': [[1] * n]}, {'nested': [[1] * n] * 2},
                {'np': [1.0] * n, 'dtype': 'float'}, {'np': [[1.0, 2.0]] * n, 'dtype': 'float'}, {'np': 3.0, 'dtype': 'float'},
                {'np': [1.0] * (n - 1 or 2), 'dtype': 'float'}, {'list': [{'s': 'q'}] * n}, {'np': ['longer'] * n, 'dtype': 'str'}]
    out = []
    for s in sel:
        for o in operands:
            out.append(['setattr', s, o])
            out.append(['setitem', s, o])
            out.append(['add_variable', s, o, None])
        out.append(['setlabel', s, 0, {'scalar': 5}])
        out.append(['setlabel', s, 1, {'list': [1, 2]}])
        out.append(['setslice', s, 0, None, 2, {'scalar': 5}])
        out.append(['setslice', s, None, 1, None, {'list': [1, 2]}])
    out += [['add_variable', ['new', 'W'], {'scalar': 1}, d] for d in ('float', 'int', 'bool', 'str', 'U2')]
    out += [['values', {'scalar': 4}], ['values', {'np': [[1.0] * n] * 4, 'dtype': 'float'}], ['values', {'np': [[1.0] * n] * 2, 'dtype': 'float'}],
            # the right number of rows (2 / 3 / 4 variables) with one column, or one column too few / too many
            *[['values', {'np': [[float(r)] * c for r in range(rows)], 'dtype': 'float'}] for rows in (2, 3, 4) for c in (1, max(n - 1, 2), n + 1)],
            ['strict', True], ['strict', False], ['strict', True, 1], ['strict', True, 2], ['add_attribute', 'note', 1], ['add_attribute', 'X', 1], ['add_attribute', 'span', 1],
            ['setlabel', ['new', 'attributes'], 0, {'scalar': 5}], ['setlabel', ['new', 'strict'], 0, {'scalar': 5}],
            ['replace_values', [[['var', 0], {'scalar': 1}], [['var', 1], {'list': [1]}]]],
            ['replace_values', [[['var', 0], {'nested': [[1, 2]] * n}]]]]
    return out


def gen_singles_and_pairs(pairs):
    def gen():
        for kind in ('container', 'model', 'linker'):
            for desc in SPANS[:3 if pairs else 5]:
                n = len(spans.labels(desc))
                ops = reduced_ops(n)
                for strict in (False, True):
                    for i, op in enumerate(ops):
                        yield {'kind': kind, 'span': desc, 'strict': strict, 'ops': [op]}
                        if strict and i % 3 == 0:
                            yield {'kind': kind, 'span': desc, 'strict': strict, 'ops': [op], 'strict_rep': 1 + (i // 3) % 2}
                        if kind != 'container' and i % 4 == 0:
                            yield {'kind': kind, 'span': desc, 'strict': strict, 'ops': [op], 'dtype': ['int', 'float32', 'bool'][(i // 4) % 3]}
                # an ad hoc name is added while strict is off (by assignment or by add_attribute), strict is switched on,
                # and the name is updated / another one is attempted
                for nm in ('Q', 'total', 'x'):
                    for first in (['setattr', ['new', nm], {'scalar': 1}], ['add_attribute', nm, 1],
                                  ['setattr', ['new', nm], {'list': [1] * n}]):
                        for srep in (0, 1, 2):
                            for last in (['setattr', ['new', nm], {'scalar': 7}], ['setattr', ['new', nm], {'list': [1] * (n + 1)}],
                                         ['add_attribute', nm, 2], ['setattr', ['new', nm + 'q'], {'scalar': 7}]):
                                yield {'kind': kind, 'span': desc, 'strict': False, 'ops': [first, ['strict', True, srep], last]}
                                yield {'kind': kind, 'span': desc, 'strict': False,
                                       'ops': [first, ['strict', True, srep], ['strict', False], ['strict', True], last, last]}
                if pairs and kind != 'linker':
                    sub = ops[::3]
                    for a, b in itertools.product(sub, repeat=2):
                        yield {'kind': kind, 'span': desc, 'strict': False, 'ops': [a, b]}
        # objects that start without any variable (a new container, a bare model, a linker without core variables)
        for kind in ('empty-container', 'empty-model', 'empty-linker'):
            for desc in SPANS[:3]:
                n = len(spans.labels(desc))
                firsts = [['add_variable', ['new', 'Q'], {'scalar': 1}, None], ['setattr', ['new', 'Q'], {'scalar': 1}],
                          ['setattr', ['new', 'stat'], {'scalar': 1}], ['setattr', ['new', 'iteration'], {'list': [1] * n}],
                          ['values', {'scalar': 4}], ['values', {'np': [[1.0] * n], 'dtype': 'float'}], ['add_attribute', 'note', 1],
                          ['setitem', ['new', 'Q'], {'scalar': 1}], ['strict', True], ['replace_values', [[['new', 'Q'], {'scalar': 1}]]]]
                for strict in (False, True):
                    for a in firsts:
                        yield {'kind': kind, 'span': desc, 'strict': strict, 'ops': [a]}
                        for b in firsts[:4]:
                            yield {'kind': kind, 'span': desc, 'strict': strict, 'ops': [a, b]}
    return gen


def strategy():
    from hypothesis import strategies as st

    @st.composite
    def cases(draw):
        desc = draw(st.sampled_from(SPANS))
        n = len(spans.labels(desc))
        return {'kind': draw(st.sampled_from(['container', 'container', 'model', 'linker', 'empty-container', 'empty-model', 'empty-linker'])), 'span': desc,
                'strict': draw(st.booleans()), 'ops': draw(st.lists(CO.op_strategy(n), min_size=1, max_size=25)),
                'dtype': draw(st.sampled_from([None, None, None, 'int', 'float32', 'bool'])),
                'strict_rep': draw(st.sampled_from([0, 0, 1, 2]))}
    return cases()


def phases(tier):
    quick = tier == 'quick'
    return [
        Phase('singles-and-pairs', check_case, gen=gen_singles_and_pairs(True), exhaustive=True),
        Phase('construction', check_construction, gen=gen_construction(), exhaustive=True),
        Phase('histories', check_case, strategy=strategy, examples=3000 if quick else 80000),
    ]
