"""C13 - the parser is total, fails only with its own errors, and has no side effects."""
import ast
import builtins
import itertools
import os
import re
import signal
import sys
import traceback
import warnings

from .. import env
from ..core import Phase, Result
from .. import grammar as G
from ..util import attempt

import fsic
import fsic.parser
import fsic.functions
from fsic.exceptions import ParserError, SymbolError

ID = 'C13'
TITLE = 'Parser is total, fails only with its own errors, and has no side effects'
LEVEL = 'exploration'
DESIGN_REF = 'DESIGN.md section 5, C13'
ALPHABET = ['Y', 'x', 'e', '1', '_', ' ', '\n', '=', '+', '-', '*', '/', '.', ',', '(', ')', '[', ']', '{', '}',
            '<', '>', '`', '#', "'", 'é']
RULE = (
    'exhaustive: every string over the 26-symbol alphabet ' + repr(''.join(ALPHABET)) + ' up to the length bound, every '
    "statement 'Y = <w>' and '<w> = x' with w up to its bound; Hypothesis: 1-3 token mutations (delete, duplicate, swap, "
    'insert bracket/brace/backtick/fence/quote) of valid grammar-G scripts; canary scripts whose calls, verbatim fragments '
    'and fenced blocks invoke a function planted in builtins. Oracle: parse_model returns or raises ParserError / '
    'SymbolError / IndentationError (anything else is bucketed by exception type and innermost fsic frame); if it '
    'returns, build_model returns a class that instantiates; the canary never runs and fsic.parser module state, '
    'replacement table, helper table and warnings filters are unchanged; the number of statements in _evaluate equals '
    'the number of script statements; a per-case watchdog nominates slow inputs which are confirmed under a '
    'deterministic line-event budget. Non-trivial: the string contains = and a bracket, brace, backtick or quote. '
    'Distinct = distinct strings.'
)
ASSUMPTIONS = ['"terminates" is decided up to a budget of 10^7 traced line events (a normal parse uses < 10^4)',
               'statement counting for raw strings applies to strings without backticks or parentheses, where a statement '
               'is a non-blank line after comment stripping, and without a repeated left-hand side']
TECHNIQUE = ('bounded-exhaustive string enumeration + Hypothesis mutation fuzzing of valid scripts + canary scripts; '
             'exception bucketing by (type, innermost fsic frame); optional atheris coverage-guided campaign (thorough)')
LEVEL_TEXT = ('All strings up to a length bound over the characters that drive the regexes and counters are enumerated, '
              'plus mutation fuzzing of valid scripts; every outcome is classified (own error / return + build + '
              'instantiate) and side effects are checked after every case.')
LEVEL_NOTE = 'Trusted: CPython ast for statement counting. Not covered: strings longer than the bound that are not near a valid script.'

OWN_ERRORS = (ParserError, SymbolError, IndentationError)
CANARY = '__fsicverif_trip__'
_tripped = []


def _canary(*args, **kwargs):
    _tripped.append(1)
    return 1.0


setattr(builtins, CANARY, _canary)


class _Timeout(BaseException):
    pass


def _alarm(signum, frame):
    raise _Timeout()


def _bucket(e):
    tb = traceback.extract_tb(e.__traceback__)
    where = 'unknown'
    for frame in tb:
        fn = os.path.realpath(frame.filename) if not frame.filename.startswith('<') else frame.filename
        if fn.startswith(env.FSIC_DIR + os.sep):
            where = os.path.basename(fn) + ':' + frame.name
    return f'{type(e).__name__}/{where}'


def _state():
    import sys
    # every module-level binding of the package (name and identity of the bound object): a rebinding is a side effect too
    mods = tuple((name, tuple(sorted((k, id(v)) for k, v in vars(mod).items() if k != '__builtins__')))
                 for name, mod in sorted(sys.modules.items()) if mod is not None and (name == 'fsic' or name.startswith('fsic.')))
    return (mods, tuple(sorted(fsic.parser.replacement_function_names.items())),
            tuple((k, id(v)) for k, v in fsic.functions.builtins.items()), tuple(map(id, warnings.filters)),
            len(warnings.filters))


def count_eval_statements(code):
    tree = ast.parse(code)
    cls = [n for n in tree.body if isinstance(n, ast.ClassDef)][0]
    fn = [n for n in cls.body if isinstance(n, ast.FunctionDef) and n.name == '_evaluate'][0]
    body = list(fn.body)
    if body and isinstance(body[0], ast.Expr) and isinstance(getattr(body[0], 'value', None), ast.Constant) \
            and isinstance(body[0].value.value, str):
        body = body[1:]
    if len(body) == 1 and isinstance(body[0], ast.Pass):
        return 0
    return len(body)


def line_statements(text):
    """Statements of a raw string without fences/parentheses: non-blank lines after comment stripping."""
    out = []
    for line in text.splitlines():
        h = line.find('#')
        if h != -1:
            line = line[:h]
        if line.strip():
            out.append(line)
    return out


def judge(text, res, *, expect_statements=None, cls='', expect_blocks=None):
    """Apply the oracle of C13 to one script."""
    before = _state()
    del _tripped[:]
    signal.signal(signal.SIGALRM, _alarm)
    signal.setitimer(signal.ITIMER_REAL, 5.0)
    try:
        try:
            _judge(text, res, expect_statements, cls, expect_blocks)
        finally:
            signal.setitimer(signal.ITIMER_REAL, 0)
    except _Timeout:
        verdict = confirm_nontermination(text)
        if verdict == 'nonterminating':
            res.fail('nontermination/parse-or-build', f'{text!r}: still running after 10^7 traced line events')
        else:
            res.tag('slow-case:' + verdict)
    if _tripped:
        res.fail('side-effect/model-code-executed' + cls, f'{text!r}: parsing/building executed code of the script')
    after = _state()
    if after != before:
        which = ['package-module-bindings', 'replacement-table', 'helper-table', 'warnings-filters', 'warnings-filters'][
            [a == b for a, b in zip(before, after)].index(False)]
        res.fail(f'side-effect/{which}', f'{text!r} changed {which}')
        warnings.resetwarnings()
        warnings.simplefilter('ignore')


def _judge(text, res, expect_statements, cls, expect_blocks=None):
    # syntax checking off: still total, still only the parser's own errors (nothing further is promised about the result)
    try:
        fsic.parse_model(text, check_syntax=False)
    except OWN_ERRORS:
        pass
    except _Timeout:
        raise
    except BaseException as e:  # noqa: BLE001
        res.fail('parse/' + _bucket(e) + '/check_syntax=False' + cls,
                 f'parse_model({text!r}, check_syntax=False) raised {type(e).__name__}: {e}')
    try:
        symbols = fsic.parse_model(text)
    except OWN_ERRORS:
        res.tag('rejected-with-own-error')
        return
    except _Timeout:
        raise
    except BaseException as e:  # noqa: BLE001
        res.fail('parse/' + _bucket(e) + cls, f'parse_model({text!r}) raised {type(e).__name__}: {e}')
        return
    res.tag('accepted')
    try:
        Model = fsic.build_model(symbols)
    except _Timeout:
        raise
    except BaseException as e:  # noqa: BLE001
        res.fail('build/' + _bucket(e) + cls, f'parse_model({text!r}) returned but build_model raised {type(e).__name__}: {e}')
        return
    try:
        Model(range(Model.LAGS + Model.LEADS + 2))
    except _Timeout:
        raise
    except BaseException as e:  # noqa: BLE001
        res.fail('instantiate/' + _bucket(e) + cls, f'{text!r}: built class cannot be instantiated: {type(e).__name__}: {e}')
        return
    if expect_blocks is not None:
        # every non-blank statement (equation or fenced block, even an empty or comment-only one) is one block handed to the
        # code generator: counted through a custom converter
        seen_blocks = []
        try:
            fsic.build_model(symbols, converter=lambda sym: (seen_blocks.append(sym.name), sym.code)[1])
        except _Timeout:
            raise
        except BaseException as e:  # noqa: BLE001
            res.fail('build/' + _bucket(e) + '/custom-converter' + cls, f'{text!r}: build_model with a converter raised {type(e).__name__}: {e}')
            return
        if len(seen_blocks) != expect_blocks:
            how = 'dropped' if len(seen_blocks) < expect_blocks else 'duplicated'
            res.fail(f'blocks-{how}' + cls, f'{text!r}: {expect_blocks} statement(s) in the script, the code generator was handed '
                     f'{len(seen_blocks)} block(s)')
    if expect_statements is not None:
        got = count_eval_statements(Model.CODE)
        if got != expect_statements:
            how = 'dropped' if got < expect_statements else 'duplicated'
            if how == 'duplicated' and any(len(re.findall(r'[A-Za-z_]\w*', ln.split('=', 1)[0])) >= 2
                                           for ln in line_statements(text) if '=' in ln):
                how = 'duplicated/several-names-on-lhs'
            res.fail(f'statements-{how}' + cls, f'{text!r}: {expect_statements} statement(s) in the script, '
                     f'{got} in _evaluate')


def confirm_nontermination(text, budget=10_000_000):
    count = [0]

    class Stop(BaseException):
        pass

    def tracer(frame, event, arg):
        count[0] += 1
        if count[0] > budget:
            raise Stop()
        return tracer

    sys.settrace(tracer)
    try:
        try:
            symbols = fsic.parse_model(text)
            fsic.build_model(symbols)
        except Stop:
            return 'nonterminating'
        except BaseException:  # noqa: BLE001
            return 'terminated'
    finally:
        sys.settrace(None)
    return 'terminated'


def is_nontrivial(text):
    return '=' in text and any(c in text for c in '()[]{}<>`\'"')


def check_string(case):
    text = case['s']
    res = Result(nontrivial=is_nontrivial(text), classes=['raw-string'])
    expect = None
    if '(' not in text and ')' not in text and not any(ln.startswith('```') for ln in line_statements(text)):
        # (backticks elsewhere than at the start of a line do not open a fenced block: the statements are still the lines)
        lines = line_statements(text)
        lhs = [ln.split('=', 1)[0].replace(' ', '') for ln in lines]
        if len(set(lhs)) == len(lhs):
            expect = len(lines)
    judge(text, res, expect_statements=expect,
          cls='/reserved-name' if case.get('reserved') else '/jointly-invalid-blocks' if case.get('joint') else '')
    return res


def gen_reserved_names():
    """Scripts whose variable / parameter carries the name of an attribute, property or method of the model object."""
    def gen():
        class M0(fsic.BaseModel):
            ENDOGENOUS = ['Y']
            NAMES = ['Y']
            CHECK = ['Y']

            def _evaluate(self, t, **kwargs):
                pass
        m = M0(range(3))
        names = sorted(n for n in set(dir(M0)) | {k.lstrip('_') for k in m.__dict__} | set(m.index)
                       if n.isidentifier() and not n.startswith('_'))
        for nm in names:
            for template in ('{} = X', 'Y = {}', 'Y = {{{}}}', 'Y = <{}>[-1]', '{0} = {0}[-1] + 1'):
                yield {'s': template.format(nm), 'reserved': True}
    return gen


def gen_method_context():
    """Verbatim blocks whose validity depends on where Python compiles them: the parser's syntax check sees a statement on
    its own, the built class has it inside a method. Whatever the parser lets through must build and instantiate."""
    def gen():
        blocks = ['from math import *', 'global t', 'nonlocal t', 'return', 'return 5', 'x = 1\nif x:\n    return',
                  'yield', 'yield t', 'await t', 'global self', 'del t', 'import math', 'from math import pi',
                  'class K:\n    pass', 'def f():\n    return 1', 'lambda: (yield)', 'global Y', '__class__', 'super()',
                  'break', 'continue', 'for i in ():\n    break', 'while False:\n    continue', 'async def g():\n    await t',
                  # indentation that is only wrong (or only right) relative to the surrounding method body
                  '   x = 1', ' pass', '\tx = 1', 'if t:\n  x = 1\nelse:\n      x = 2', 'x = 1\n  y = 2', '  x = 1\n  y = 2']
        for blk in blocks:
            yield {'s': f'```\n{blk}\n```'}
            yield {'s': f'Y = X\n```\n{blk}\n```'}
            yield {'s': f'```\n{blk}\n```\nY = X[-1] + {{a}}'}
    return gen


def gen_jointly_invalid():
    """Verbatim blocks that each compile inside a method but not one after the other (a name assigned in one block and
    declared global / nonlocal in a later one)."""
    def gen():
        pairs = [('x = 1', 'global x'), ('x = t', 'nonlocal x'), ('t = 1', 'global t'), ('print(x)', 'global x'),
                 ('global x', 'x = 1'), ('x = 1', 'x = 2'), ('import math', 'global math')]
        for a, b in pairs:
            yield {'s': f'```\n{a}\n```\n```\n{b}\n```', 'joint': True}
            yield {'s': f'Y = X\n```\n{a}\n```\n```\n{b}\n```', 'joint': True}
            yield {'s': f'```\n{a}\n```\nY = X[-1]\n```\n{b}\n```', 'joint': True}
    return gen


def gen_long_names():
    """Identifiers of 60-200 characters as variables, parameters and errors, and statements of several hundred characters."""
    def gen():
        for m in (60, 70, 71, 76, 77, 78, 80, 110, 200):
            for ch in ('a', 'Z', 'x_'):
                nm = (ch * m)[:m]
                yield {'s': f'X = {nm}'}
                yield {'s': f'{nm} = X'}
                yield {'s': f'Y = {{{nm}}} * X[-1]'}
                yield {'s': f'Y = X + <{nm}>'}
                yield {'s': f'Y = X + {nm}\nZ = {nm}[-1] + W'}
                yield {'s': f'Y = b{nm} + {nm}c'}
        for k in (20, 60, 150):
            yield {'s': 'Y = ' + ' + '.join(f'v{i}' for i in range(k))}
            yield {'s': 'Y = ' + ' + '.join(f'{{p{i}}} * v{i}[-{1 + i % 3}]' for i in range(k))}
    return gen


def gen_midline_backticks():
    """Runs of backticks that are not at the start of a line (they cannot open a fenced block), in the middle of a script."""
    def gen():
        frags = ['```', '```1```', '`a```b`', '````', ' ```', 'x```', '`````', '``````', '```x', '`1` ```', '``` `1`', "'```'", '<```>', '{```}',
                 '[```]', '```\n```', '```\n', '`x`', '``']
        for f in frags:
            for template in ('Y = 1\nX = {}\nZ = 2', 'Y = 1\nX{} = 2\nZ = 2', 'Y = 1 {}\nZ = 2', 'X = {}', 'Y = 1\nX = 2 {}',
                             'Y = 1\n X = {}\nZ = 2', 'Y = 1 # {}\nZ = 2', 'Y = {}\n```\nx = 1\n```\nZ = 2'):
                yield {'s': template.format(f)}
    return gen


def gen_strings(max_len, rhs_len, lhs_len):
    def gen():
        for n in range(0, max_len + 1):
            for chars in itertools.product(ALPHABET, repeat=n):
                yield {'s': ''.join(chars)}
        for n in range(0, rhs_len + 1):
            for chars in itertools.product(ALPHABET, repeat=n):
                yield {'s': 'Y = ' + ''.join(chars)}
        for n in range(1, lhs_len + 1):
            for chars in itertools.product(ALPHABET, repeat=n):
                yield {'s': ''.join(chars) + ' = x'}
    return gen


# -- token-level enumeration around reserved words ------------------------------------------------------------

KW_TOKENS = ['Y', 'is', 'not', 'if', '[', ']', '1', '=', ',', '.', '(', ')', ' ']


def gen_keyword_tokens(max_tokens, frame_tokens):
    """Every sequence of up to `max_tokens` tokens over an alphabet with reserved words, and every left-hand side of
    up to `frame_tokens` tokens in the frame '<w>=1' (a keyword next to a genuine variable needs >= 5 tokens there)."""
    def gen():
        for n in range(1, max_tokens + 1):
            for toks in itertools.product(KW_TOKENS, repeat=n):
                yield {'s': ''.join(toks)}
        lhs = [t for t in KW_TOKENS if t not in ('=', ' ')]
        for n in range(1, frame_tokens + 1):
            for toks in itertools.product(lhs, repeat=n):
                yield {'s': ''.join(toks) + '=1'}
    return gen


# -- mutation fuzzing of valid scripts -----------------------------------------------------

TOKEN = re.compile(r"[A-Za-z_][A-Za-z_0-9.]*|\d+\.?\d*|\.\d+|\*\*|[<>=!]=|```|\s+|.", re.S)
INSERTS = ['(', ')', '[', ']', '{', '}', '<', '>', '`', '```', "'", '"', '=', '\n', '#', ',', '\\', ' ', '\n```\n', ':', '@',
           'is', 'not[1]', 'if[0]', ',in[-1]', '.', 'lambda', 'None', ';', '\t']


def mutate(text, muts):
    toks = TOKEN.findall(text)
    for kind, i, j in muts:
        if not toks:
            toks = ['']
        i %= len(toks)
        if kind == 'delete':
            del toks[i]
        elif kind == 'duplicate':
            toks.insert(i, toks[i])
        elif kind == 'swap':
            j %= len(toks)
            toks[i], toks[j] = toks[j], toks[i]
        elif kind == 'insert':
            toks.insert(i, INSERTS[j % len(INSERTS)])
        elif kind == 'replace':
            toks[i] = INSERTS[j % len(INSERTS)]
    return ''.join(toks)


def check_mutant(case):
    text, _ = G.render_program(case['prog'], case.get('tape') or [])
    mutated = mutate(text, case['muts'])
    res = Result(nontrivial=is_nontrivial(mutated) and mutated != text,
                 classes=['mutated-script'] + ['mutation:' + m[0] for m in case['muts']])
    judge(mutated, res, cls='')
    return res


def strat_mutants():
    from hypothesis import strategies as st
    mut = st.tuples(st.sampled_from(['delete', 'duplicate', 'swap', 'insert', 'insert', 'replace']),
                    st.integers(0, 200), st.integers(0, 200)).map(list)
    return st.fixed_dictionaries({
        'prog': G.programs(max_statements=3, blocks=True, named_periods=True, max_leaves=5),
        'tape': G.tapes(20),
        'muts': st.lists(mut, min_size=1, max_size=3),
    })


# -- valid scripts: canary + nothing dropped -----------------------------------------------------


def expected_statements(prog):
    n = 0
    seen = set()
    for s in prog:
        if s[0] == 'block':
            n += len(ast.parse(s[1]).body)
        else:
            key = G.dump(G.statement_pyast(s))
            if key not in seen:
                seen.add(key)
                n += 1
    return n


def expected_blocks(prog):
    """Distinct equations plus fenced blocks (each fenced block is a statement of its own, whatever it holds)."""
    seen = set()
    n = 0
    for s in prog:
        if s[0] == 'block':
            n += 1
        else:
            key = G.dump(G.statement_pyast(s))
            if key not in seen:
                seen.add(key)
                n += 1
    return n


def plant_canary(prog, where):
    """Replace parts of a valid program by calls of the canary."""
    out = []
    for k, s in enumerate(prog):
        if s[0] == 'block':
            out.append(['block', f'{CANARY}()\n' + s[1]])
            continue
        rhs = s[2]
        mode = where[k % len(where)]
        if mode == 0:
            rhs = ['call', CANARY, [rhs]]
        elif mode == 1:
            rhs = ['bin', '+', rhs, ['verb', f'{CANARY}()']]
        elif mode == 2:
            rhs = ['bin', '*', ['call', CANARY, [['num', '1']]], rhs]
        out.append(['assign', s[1], rhs])
    if where and where[0] == 3:
        out.append(['block', f'{CANARY}()'])
    return out


def check_valid(case):
    prog = case['prog']
    if case.get('canary') is not None:
        prog = plant_canary(prog, case['canary'])
    ref = G.Reference(prog)
    text, _ = G.render_program(prog, case.get('tape') or [])
    res = Result(nontrivial=True, classes=['valid-script'] + (['canary'] if case.get('canary') is not None else []))
    if ref.reject or ref.function_variable_clash:
        judge(text, res)
        return res
    judge(text, res, expect_statements=expected_statements(prog), cls='/valid-script', expect_blocks=expected_blocks(prog))
    if 'rejected-with-own-error' in res.classes:
        res.fail('valid-script-rejected', f'{text!r} is inside the documented syntax but was rejected')
    return res


def strat_valid():
    from hypothesis import strategies as st
    block = st.sampled_from([['block', 'pass'], ['block', 'x = 1'], ['block', 'self._N = getattr(self, "_N", 0) + 1'],
                             # blocks without any code: still statements of the script
                             ['block', ''], ['block', '# a remark'], ['block', 'pass  # noqa']])

    def with_blocks(prog, extra, where):
        out = list(prog)
        for b, w in zip(extra, where):
            out.insert(w % (len(out) + 1), b)
        return out
    progs = st.tuples(G.programs(max_statements=4, blocks=True, named_periods=True, max_leaves=5), st.lists(block, max_size=3),
                      st.lists(st.integers(0, 5), min_size=3, max_size=3)).map(lambda x: with_blocks(*x))
    return st.fixed_dictionaries({
        'prog': progs,
        'tape': G.tapes(30),
        'canary': st.one_of(st.none(), st.lists(st.integers(0, 3), min_size=1, max_size=3)),
    })


def selfcheck():
    from ..core import HarnessError
    G.selfcheck()
    # the canary is reachable from exec'd code and the detector sees it
    del _tripped[:]
    exec(f'{CANARY}()', {})
    if not _tripped:
        raise HarnessError('C13 canary self-check failed')
    del _tripped[:]
    if count_eval_statements(fsic.build_model(fsic.parse_model('Y = X\nZ = Y')).CODE) != 2:
        raise HarnessError('C13 statement counter self-check failed')


def gen_atheris(seconds):
    """Run two coverage-guided campaigns (empty corpus; corpus of valid scripts) in subprocesses and yield what they
    recorded (violating inputs first, then a sample of the final corpora) as cases for check_string."""
    def gen():
        import shutil
        import subprocess
        import tempfile
        from .. import c13_fuzz
        seed = int(os.environ.get('VERIF_SEED', '1') or 1)
        out = tempfile.mkdtemp(prefix='fsicverif-atheris-')
        try:
            penv = dict(os.environ)
            deps = os.path.join(env.VERIF, '.deps')
            penv['PYTHONPATH'] = deps + os.pathsep + env.VERIF + os.pathsep + penv.get('PYTHONPATH', '')
            procs = [subprocess.Popen([sys.executable, '-m', 'fsicverif.c13_fuzz', out, str(seed), str(seconds), mode],
                                      cwd=env.VERIF, env=penv, stdout=subprocess.DEVNULL, stderr=subprocess.PIPE, text=True)
                     for mode in ('empty', 'scripts')]
            stats = []
            for pr in procs:
                try:
                    _, err = pr.communicate(timeout=seconds + 300)
                except subprocess.TimeoutExpired:
                    pr.kill()
                    _, err = pr.communicate()
                stats.append([ln for ln in (err or '').splitlines() if 'number_of_executed_units' in ln or 'ModuleNotFoundError' in ln])
            yield {'s': '', 'atheris': str(stats)[:300]}
            seen = set()
            found = os.path.join(out, 'found')
            for fn in sorted(os.listdir(found)) if os.path.isdir(found) else []:
                text = open(os.path.join(found, fn), encoding='utf-8').read()
                if text not in seen:
                    seen.add(text)
                    yield {'s': text, 'atheris': 'found'}
            for mode in ('empty', 'scripts'):
                d = os.path.join(out, 'corpus-' + mode)
                for fn in sorted(os.listdir(d))[:4000] if os.path.isdir(d) else []:
                    text = c13_fuzz.decode(open(os.path.join(d, fn), 'rb').read())
                    if text not in seen:
                        seen.add(text)
                        yield {'s': text, 'atheris': mode}
        finally:
            shutil.rmtree(out, ignore_errors=True)
    return gen


def phases(tier):
    quick = tier == 'quick'
    extra = []
    if not quick:
        extra = [Phase('atheris-campaigns', check_string, gen=gen_atheris(int(os.environ.get('VERIF_ATHERIS_S', '120'))), shards=1,
                       note='two libFuzzer campaigns (empty corpus / valid scripts); every recorded input is re-judged here')]
    return extra + [
        Phase('strings', check_string, gen=gen_strings(3, 3, 3) if quick else gen_strings(4, 4, 4), exhaustive=True),
        Phase('reserved-names', check_string, gen=gen_reserved_names(), exhaustive=True, shards=4,
              note='every attribute / property / method name of a model object as a variable, parameter or error name'),
        Phase('method-context-statements', check_string, gen=gen_method_context(), exhaustive=True, shards=2,
              note='verbatim statements that are valid only inside / only outside a function body'),
        Phase('jointly-invalid-blocks', check_string, gen=gen_jointly_invalid(), exhaustive=True, shards=1,
              note='blocks that compile inside a method one at a time but not in sequence'),
        Phase('long-names', check_string, gen=gen_long_names(), exhaustive=True, shards=2),
        Phase('midline-backticks', check_string, gen=gen_midline_backticks(), exhaustive=True, shards=1),
        Phase('keyword-token-strings', check_string, gen=gen_keyword_tokens(4, 5) if quick else gen_keyword_tokens(5, 6), exhaustive=True),
        Phase('mutated-scripts', check_mutant, strategy=strat_mutants, examples=4000 if quick else 120000),
        Phase('valid-and-canary-scripts', check_valid, strategy=strat_valid, examples=1500 if quick else 30000),
    ]
