"""Script grammar G: program AST (JSON lists), renderer with a layout tape, Hypothesis strategies, enumerator.

Expression nodes
    ['num', text]                         numeric literal, text as written ('2', '0.5', '2.', '.25')
    ['var', name, kind, idx]              kind: 'v' variable | 'p' {parameter} | 'e' <error>
                                          idx: None | int | ['+', k] | ['q', "'lbl'"] | ['bt', 'lbl']
    ['un', op, e]                         op: '-' | '+' | 'not'
    ['bin', op, l, r]                     op: + - * / **
    ['cmp', op, l, r]                     op: < <= > >= == !=
    ['bool', op, l, r]                    op: and | or
    ['if', body, test, orelse]            body if test else orelse
    ['call', fname, [args]]               exp/log/max/min are replaced; anything else is left alone
    ['verb', text]                        `text` (partial verbatim fragment)
    ['paren', e]                          explicit (redundant) parentheses
Statements
    ['assign', lhs_var_node, rhs]
    ['block', text]                       fenced verbatim block (```), text = lines of Python

The renderer draws every layout decision from a *tape* (list of ints, 0 = canonical); a decision point
pops the next entry.  An all-zero / empty tape gives the canonical text.  This keeps layouts JSON-able,
replayable, and shrinkable (towards the canonical layout).
"""
import ast
import itertools

REPLACED = {'exp': 'np.exp', 'log': 'np.log', 'max': 'max', 'min': 'min'}

PREC = {'if': 1, 'or': 2, 'and': 3, 'not': 4, 'cmp': 5, '+': 6, '-': 6, '*': 7, '/': 7, 'un': 8, '**': 9, 'atom': 10}


# -- layout tape --------------------------------------------------------------


class Tape:
    def __init__(self, tape=None, kinds=None):
        self.tape = list(tape or [])
        self.pos = 0
        self.kinds = kinds  # if given: only decision points of these kinds consume the tape (others are canonical)
        self.points = []    # (kind, n_options, chosen) for every decision point met

    def pick(self, kind, n):
        if self.kinds is not None and kind not in self.kinds:
            return 0
        v = self.tape[self.pos] % n if self.pos < len(self.tape) else 0
        self.pos += 1
        self.points.append((kind, n, v))
        return v


# -- rendering ----------------------------------------------------------------


def expr_prec(e):
    t = e[0]
    if t in ('num', 'var', 'call', 'verb', 'paren'):
        return PREC['atom']
    if t == 'un':
        return PREC['not'] if e[1] == 'not' else PREC['un']
    if t == 'bin':
        return PREC[e[1]]
    if t == 'cmp':
        return PREC['cmp']
    if t == 'bool':
        return PREC[e[1]]
    if t == 'if':
        return PREC['if']
    raise ValueError(e)


def render_index(idx, tape, depth=0):
    if idx is None:
        if tape.pick('explicit0', 2):
            return '[0]'
        return ''
    if isinstance(idx, int):
        body = str(idx)
    elif idx[0] == '+':
        body = '+' + str(idx[1])
    elif idx[0] == 'q':
        body = idx[1]
    elif idx[0] == 'bt':
        body = '`' + idx[1] + '`'
    else:
        raise ValueError(idx)
    pad = tape.pick('index-pad', 5 if depth > 0 else 3)
    if pad == 1:
        body = ' ' + body + ' '
    elif pad == 2:
        body = body + ' '
    elif pad == 3:
        body = '\n    ' + body + '\n'       # inside right-hand-side parentheses a line may break anywhere Python allows
    elif pad == 4:
        body = '\t' + body
    return '[' + body + ']'


def render_var(e, tape, depth=0):
    _, name, kind, idx = e
    if kind == 'p':
        name = ('{ ' + name + ' }') if tape.pick('brace-pad', 2) else ('{' + name + '}')
    elif kind == 'e':
        name = ('< ' + name + ' >') if tape.pick('angle-pad', 2) else ('<' + name + '>')
    gap = ' ' if (idx is not None and tape.pick('name-bracket-gap', 2)) else ''
    ix = render_index(idx, tape, depth)
    if not ix:
        gap = ''
    return name + gap + ix


def _wrap(text, need, tape):
    if not need:
        return text
    return _parens(text, tape)


def _parens(text, tape):
    p = tape.pick('paren-pad', 3)
    if p == 1:
        return '( ' + text + ' )'
    if p == 2:
        return '(\n    ' + text + '\n)'
    return '(' + text + ')'


def _op(op, tape, wordy=False, depth=0):
    """Binary operator with surrounding whitespace; inside parentheses a line break may follow it."""
    n = 7 if depth > 0 else 3
    k = tape.pick('op-space', n)
    if k == 1 and not wordy:
        return op
    if k == 2:
        return '  ' + op + '\t'
    if k == 3:
        return ' ' + op + '\n        '
    if k == 4:
        return ' ' + op + '  # note (a+b) # again\n        '
    if k == 5:
        return '\n' + op + ' '
    if k == 6:
        return ' ' + op + '\n\n    '      # blank line inside a parenthesised statement
    return ' ' + op + ' '


def render_expr(e, tape, depth=0):
    t = e[0]
    if t == 'num':
        return e[1]
    if t == 'var':
        return render_var(e, tape, depth)
    if t == 'verb':
        return '`' + e[1] + '`'
    if t == 'paren':
        return _parens(render_expr(e[1], tape, depth + 1), tape)
    if t == 'call':
        gap = ' ' if tape.pick('call-gap', 2) else ''
        parts = [render_expr(a, tape, depth + 1) for a in e[2]]
        sep = ',' if tape.pick('comma-space', 2) else ', '
        inner = sep.join(parts)
        p = tape.pick('call-pad', 2)
        if p:
            inner = ' ' + inner + ' '
        return e[1] + gap + '(' + inner + ')'
    if t == 'un':
        op = e[1]
        inner = render_expr(e[2], tape, depth)
        me = expr_prec(e)
        if op == 'not':
            need = expr_prec(e[2]) < PREC['not']
            return 'not ' + _wrap(inner, need, tape)
        # unary minus/plus binds tighter than * but looser than **
        need = expr_prec(e[2]) < me
        gap = ' ' if tape.pick('unary-gap', 2) else ''
        return op + gap + _wrap(inner, need, tape)
    if t == 'bin':
        op = e[1]
        me = PREC[op]
        lt = render_expr(e[2], tape, depth)
        rt = render_expr(e[3], tape, depth)
        if op == '**':
            lneed = expr_prec(e[2]) <= me          # right-assoc; (-x)**2 and (a**b)**c need parentheses
            rneed = expr_prec(e[3]) < PREC['un']   # 2 ** -x is fine
        else:
            lneed = expr_prec(e[2]) < me
            rneed = expr_prec(e[3]) <= me
        lt = _wrap(lt, lneed, tape)
        rt = _wrap(rt, rneed, tape)
        return lt + _op(op, tape, depth=depth) + rt
    if t == 'cmp':
        lt = _wrap(render_expr(e[2], tape, depth), expr_prec(e[2]) <= PREC['cmp'], tape)
        rt = _wrap(render_expr(e[3], tape, depth), expr_prec(e[3]) <= PREC['cmp'], tape)
        return lt + _op(e[1], tape, depth=depth) + rt
    if t == 'bool':
        me = PREC[e[1]]
        lt = _wrap(render_expr(e[2], tape, depth), expr_prec(e[2]) < me, tape)
        rt = _wrap(render_expr(e[3], tape, depth), expr_prec(e[3]) <= me, tape)
        return lt + _op(e[1], tape, wordy=True, depth=depth) + rt
    if t == 'if':
        body = _wrap(render_expr(e[1], tape, depth), expr_prec(e[1]) <= PREC['if'], tape)
        test = _wrap(render_expr(e[2], tape, depth), expr_prec(e[2]) <= PREC['if'], tape)
        orelse = render_expr(e[3], tape, depth)
        return body + _op('if', tape, wordy=True, depth=depth) + test + _op('else', tape, wordy=True, depth=depth) + orelse
    raise ValueError(e)


COMMENTS = ['', '  # comment', ' # note: C = a*Y # nested hash', '# x', ' # 1) unbalanced', '  # see (G&L 2007, ch. 3',
            ' # {brace <angle [bracket `tick']
PRE_LINES = [None, '', '# a comment line (with brackets)', '   ', '# 1) households', '# ((( = {', '\t', '#']


def render_statement(s, tape):
    if s[0] == 'block':
        return '```\n' + s[1] + '\n```'
    _, lhs, rhs = s
    # the left-hand side is kept free of inner whitespace (the documented statement form is
    # `NAME[index] = ...`; the parser's own error for whitespace there is not a layout of the catalogue);
    # only the explicit [0] spelling varies
    lhs_tape = Tape([tape.pick('explicit0', 2)] if lhs[3] is None else [])
    left = render_var(lhs, lhs_tape)
    eq = [' = ', '=', '  =  '][tape.pick('eq-space', 3)]
    wrap = tape.pick('wrap-rhs', 3)
    if wrap:
        # whole right-hand side in parentheses, optionally broken over lines
        inner = render_expr(rhs, tape, depth=1)
        right = '(' + inner + ')' if wrap == 1 else '(\n    ' + inner + '\n)'
    else:
        right = render_expr(rhs, tape, depth=0)
    c = tape.pick('comment', len(COMMENTS))
    text = left + eq + right
    if c:
        if '\n' in text and c:
            # a trailing comment goes on the last line
            pass
        text = text + COMMENTS[c]
    return text


def render_program(prog, tape=None):
    """-> (script text, Tape) ; the Tape records the decision points that were met."""
    tp = tape if isinstance(tape, Tape) else Tape(tape)
    chunks = []
    for s in prog:
        pre = tp.pick('pre-statement', len(PRE_LINES))
        if pre:
            chunks.append(PRE_LINES[pre])
        chunks.append(render_statement(s, tp))
    tail = tp.pick('tail', 3)
    text = '\n'.join(chunks)
    if tail == 1:
        text += '\n'
    elif tail == 2:
        text += '\n\n# end\n'
    return text, tp


# -- Python AST of the expected translation -------------------------------------


def _self_attr(name):
    return ast.Attribute(value=ast.Name(id='self', ctx=ast.Load()), attr='_' + name, ctx=ast.Load())


def _t_index(k):
    if k == 0:
        return ast.Name(id='t', ctx=ast.Load())
    if k > 0:
        return ast.BinOp(left=ast.Name(id='t', ctx=ast.Load()), op=ast.Add(), right=ast.Constant(value=k))
    return ast.BinOp(left=ast.Name(id='t', ctx=ast.Load()), op=ast.Sub(), right=ast.Constant(value=-k))


def idx_offset(idx):
    """Integer offset of an index, or None for a named period."""
    if idx is None:
        return 0
    if isinstance(idx, int):
        return idx
    if idx[0] == '+':
        return idx[1]
    return None


def var_pyast(e, ctx=None):
    _, name, kind, idx = e
    ctx = ctx or ast.Load()
    off = idx_offset(idx)
    if off is not None:
        return ast.Subscript(value=_self_attr(name), slice=_t_index(off), ctx=ctx)
    # named period: self['NAME', <label expression>]
    label = ast.parse(idx[1], mode='eval').body
    return ast.Subscript(
        value=ast.Name(id='self', ctx=ast.Load()),
        slice=ast.Tuple(elts=[ast.Constant(value=name), label], ctx=ast.Load()),
        ctx=ctx,
    )


_BIN = {'+': ast.Add, '-': ast.Sub, '*': ast.Mult, '/': ast.Div, '**': ast.Pow}
_CMP = {'<': ast.Lt, '<=': ast.LtE, '>': ast.Gt, '>=': ast.GtE, '==': ast.Eq, '!=': ast.NotEq}


def _func_pyast(dotted):
    parts = dotted.split('.')
    node = ast.Name(id=parts[0], ctx=ast.Load())
    for p in parts[1:]:
        node = ast.Attribute(value=node, attr=p, ctx=ast.Load())
    return node


def to_pyast(e):
    """Expected translation of an expression, built directly from the generator's tree."""
    t = e[0]
    if t == 'num':
        return ast.parse(e[1], mode='eval').body
    if t == 'var':
        return var_pyast(e)
    if t == 'verb':
        return ast.parse(e[1], mode='eval').body
    if t == 'paren':
        return to_pyast(e[1])
    if t == 'call':
        fname = REPLACED.get(e[1], e[1])
        return ast.Call(func=_func_pyast(fname), args=[to_pyast(a) for a in e[2]], keywords=[])
    if t == 'un':
        op = {'-': ast.USub, '+': ast.UAdd, 'not': ast.Not}[e[1]]()
        return ast.UnaryOp(op=op, operand=to_pyast(e[2]))
    if t == 'bin':
        return ast.BinOp(left=to_pyast(e[2]), op=_BIN[e[1]](), right=to_pyast(e[3]))
    if t == 'cmp':
        return ast.Compare(left=to_pyast(e[2]), ops=[_CMP[e[1]]()], comparators=[to_pyast(e[3])])
    if t == 'bool':
        op = ast.And() if e[1] == 'and' else ast.Or()
        l, r = to_pyast(e[2]), to_pyast(e[3])
        # Python flattens `a and b and c` (left-nested, same operator, no parentheses needed)
        if isinstance(l, ast.BoolOp) and type(l.op) is type(op) and e[2][0] == 'bool':
            return ast.BoolOp(op=op, values=l.values + [r])
        return ast.BoolOp(op=op, values=[l, r])
    if t == 'if':
        return ast.IfExp(test=to_pyast(e[2]), body=to_pyast(e[1]), orelse=to_pyast(e[3]))
    raise ValueError(e)


def statement_pyast(s):
    """ast.Module for the expected code of one statement."""
    if s[0] == 'block':
        return ast.parse(s[1])
    _, lhs, rhs = s
    node = ast.Assign(targets=[var_pyast(lhs, ast.Store())], value=to_pyast(rhs), lineno=1)
    mod = ast.Module(body=[node], type_ignores=[])
    return ast.fix_missing_locations(mod)


def dump(node):
    return ast.dump(node, annotate_fields=False, include_attributes=False)


class _StorageAccess(ast.NodeTransformer):
    """`self.__dict__['_NAME']` and `self._NAME` denote the same storage slot of a container. Generated code has to use
    the former (or an equivalent) for names with a leading underscore, because Python mangles `self.__x` inside a class
    body; the structural comparison treats the two spellings as one and leaves the mangling question to the dynamic check."""

    def visit_Subscript(self, node):
        self.generic_visit(node)
        v = node.value
        if (isinstance(v, ast.Attribute) and v.attr == '__dict__' and isinstance(v.value, ast.Name) and v.value.id == 'self'
                and isinstance(node.slice, ast.Constant) and isinstance(node.slice.value, str)
                and node.slice.value.startswith('_')):
            return ast.Attribute(value=v.value, attr=node.slice.value, ctx=ast.Load())
        return node


def parse_code(code):
    """ast of generated model code with storage accesses in one canonical spelling."""
    return _StorageAccess().visit(ast.parse(code))


# -- static reference information --------------------------------------------


def walk(e):
    """Yield every expression node (pre-order)."""
    yield e
    t = e[0]
    if t in ('un',):
        yield from walk(e[2])
    elif t in ('bin', 'cmp', 'bool'):
        yield from walk(e[2])
        yield from walk(e[3])
    elif t == 'if':
        # textual order: body, test, orelse
        yield from walk(e[1])
        yield from walk(e[2])
        yield from walk(e[3])
    elif t == 'call':
        for a in e[2]:
            yield from walk(a)
    elif t == 'paren':
        yield from walk(e[1])


def statement_terms(s):
    """Variable-like terms of a statement in textual order: [(name, kind, idx, side)]."""
    if s[0] == 'block':
        return []
    out = [(s[1][1], s[1][2], s[1][3], 'lhs')]
    for n in walk(s[2]):
        if n[0] == 'var':
            out.append((n[1], n[2], n[3], 'rhs'))
    return out


def statement_functions(s):
    if s[0] == 'block':
        return []
    return [n[1] for n in walk(s[2]) if n[0] == 'call']


class Reference:
    """What the statements of C01/C03 say about a program (computed from the AST only)."""

    def __init__(self, prog):
        self.prog = prog
        kinds = {}
        order = []
        lags = {}
        leads = {}
        self.endogenous_names = []
        self.reject = None   # reason if the program must be rejected
        seen_defs = {}       # lhs name -> canonical statement dump
        self.equations = []  # [(lhs name, statement)] de-duplicated, in first-definition order
        fnames = set()
        for s in prog:
            if s[0] == 'block':
                continue
            fnames.update(statement_functions(s))
            for name, kind, idx, side in statement_terms(s):
                if name not in kinds:
                    kinds[name] = set()
                    order.append(name)
                kinds[name].add(kind)
                off = idx_offset(idx)
                if off is not None:
                    lags[name] = min(lags.get(name, 0), off)
                    leads[name] = max(leads.get(name, 0), off)
                else:
                    lags.setdefault(name, 0)
                    leads.setdefault(name, 0)
            lhs = s[1][1]
            d = dump(statement_pyast(s))
            if lhs in seen_defs:
                if seen_defs[lhs] != d:
                    self.reject = self.reject or f'double-definition:{lhs}'
            else:
                seen_defs[lhs] = d
                self.endogenous_names.append(lhs)
                self.equations.append((lhs, s))
        for name in order:
            if len(kinds[name]) > 1:
                self.reject = self.reject or f'mixed-kinds:{name}'
        self.function_variable_clash = sorted(set(order) & fnames)
        self.order = order
        self.kinds = {k: sorted(v)[0] if len(v) == 1 else 'mixed' for k, v in kinds.items()}
        self.name_lags = lags
        self.name_leads = leads
        endo = set(self.endogenous_names)
        self.endogenous = [n for n in order if n in endo and self.kinds[n] == 'v']
        self.exogenous = [n for n in order if n not in endo and self.kinds[n] == 'v']
        self.parameters = [n for n in order if self.kinds[n] == 'p']
        self.errors = [n for n in order if self.kinds[n] == 'e']
        self.names = self.endogenous + self.exogenous + self.parameters + self.errors
        self.lags = -min([0] + list(lags.values()))
        self.leads = max([0] + list(leads.values()))
        # evaluation order: symbol-list order = first appearance of the left-hand-side name anywhere,
        # fenced blocks afterwards in script order
        by_name = dict(self.equations)
        self.eval_order = [by_name[n] for n in order if n in by_name]
        self.eval_order += [s for s in prog if s[0] == 'block']
        self.n_blocks = sum(1 for s in prog if s[0] == 'block')

    def reads(self, s):
        """Set of (name, offset) read by a statement (integer offsets only)."""
        out = set()
        for name, kind, idx, side in statement_terms(s):
            if side == 'rhs' and idx_offset(idx) is not None:
                out.add((name, idx_offset(idx)))
        return out

    def write(self, s):
        return (s[1][1], idx_offset(s[1][3]))


# -- features (for non-trivial rules / histograms) --------------------------------


def program_features(prog):
    f = set()
    names_seen = {}
    for s in prog:
        if s[0] == 'block':
            f.add('fenced-block')
            continue
        for name, kind, idx, side in statement_terms(s):
            off = idx_offset(idx)
            if off is None:
                f.add('named-period')
            elif off != 0:
                f.add('offset')
                if abs(off) >= 10:
                    f.add('two-digit-offset')
            if isinstance(idx, list) and idx[0] == '+':
                f.add('explicit-plus')
            if kind == 'p':
                f.add('parameter')
            if kind == 'e':
                f.add('error')
            names_seen.setdefault(name, set()).add(off)
        for n in walk(s[2]):
            t = n[0]
            if t == 'call':
                f.add('call')
                if n[1] in REPLACED:
                    f.add('replaced-call')
                if '.' in n[1]:
                    f.add('namespaced-call')
                    if n[1].split('.')[-1] in REPLACED:
                        f.add('namespaced-call-ending-in-replaced-name')
            elif t in ('cmp', 'bool', 'if') or (t == 'un' and n[1] == 'not'):
                f.add('keyword-or-comparison')
            elif t == 'verb':
                f.add('verbatim-fragment')
    if len([s for s in prog if s[0] == 'assign']) >= 2:
        shared = [n for n, offs in names_seen.items()]
        f.add('multi-statement')
        lhs_names = [s[1][1] for s in prog if s[0] == 'assign']
        for i, s in enumerate(prog):
            if s[0] != 'assign':
                continue
            rhs_names = {n[1] for n in walk(s[2]) if n[0] == 'var'}
            if rhs_names & set(lhs_names[:i]) or rhs_names & set(lhs_names[i + 1:]):
                f.add('shared-variable')
    if any(len(o) > 1 for o in names_seen.values()):
        f.add('same-name-different-offsets')
    return f


def nontrivial(features):
    return bool(features & {'offset', 'parameter', 'error', 'call', 'keyword-or-comparison',
                            'verbatim-fragment', 'shared-variable', 'named-period'})


# -- identifier pools -----------------------------------------------------------

PLAIN = ['X', 'Y', 'Z', 'W', 'C', 'G', 'H', 'V']
TRICKY = ['t', 'e', 'j', 'I', 'S', 'x1', 'X_1', 'a_b_', 'Y_', 'is_open', 'Pin', 'not_X', 'in_', 'orX', 'iff',
          'None_', 'Xor', 'log10', 'np_', 'self_', 'type', 'match', 'case', 'expo', 'maxi', 'Min', 'ifelse',
          'lambda_', 'T', 'N', 'pi', 'nan', 'NaN', 'inf', 'null', 'none', 'NA', 'true',
          # leading underscores: `self.__u` inside a class body would be name-mangled by Python (S6)
          '_u', '_x1', '__a',
          # a reserved word directly followed by a digit is an ordinary name
          'in1', 'is2', 'or3', 'if0', 'not1', 'as1',
          # leading underscore(s) and ONE trailing underscore (still name-mangled inside a class body; only a double
          # trailing underscore is exempt)
          '_x_', '__u_', '_a_1_', '_x__']
FUNCTION_LIKE = ['exp', 'max', 'log', 'min', 'abs']   # used as plain variables (never also called in the same program)
PARAM_NAMES = ['a', 'b', 'alpha_1', 'k', 'theta', 'in_p', 'if_', '_p', 'in2', '_p_']
ERROR_NAMES = ['u', 'eps', 'err_1', 'v', 'or_e', '_e', 'or1', '_e_']

REPLACED_CALLS = [('exp', 1), ('log', 1), ('max', 2), ('min', 2)]
OTHER_CALLS = [('abs', 1), ('float', 1), ('np.sqrt', 1), ('np.abs', 1), ('np.exp', 1), ('np.log', 1),
               ('np.maximum', 2), ('np.minimum', 2), ('np.max', 1), ('np.min', 1), ('np.log10', 1),
               ('np.fmax', 2), ('np.float64', 1),
               # user functions (undefined at evaluation: NameError on both sides) incl. one-character and odd names
               ('f', 1), ('g', 2), ('F', 1), ('fn', 1), ('_f', 1), ('a.b', 1), ('np.f', 1), ('f1', 1), ('q_', 2)]
VERB_FRAGMENTS = ['2.5', 'np.pi', '(1 + 2)', 'np.e', '0.5e1',
                  # fragments are inserted untouched: whitespace inside them (string literals!) must survive
                  "len('a  b')", "'( x )'.count(' ')", '( 1  +  2 )', "len('tab\there')", 'max(1,  2)', "len(' = ')"]

NUMBERS = ['0', '1', '2', '3', '10', '0.5', '2.', '.25', '1.5', '100', '0.125']


# -- Hypothesis strategies --------------------------------------------------------


def programs(*, max_statements=4, max_leaves=6, max_offset=3, named_periods=False, verbatim=True,
             blocks=False, keywords=True, calls=True, big_offsets=True, lhs_offsets=True,
             numeric_only_calls=False, clash=False):
    """Strategy for accepted programs (no reject class): each name has one kind, no function/variable clash,
    one definition per endogenous variable."""
    from hypothesis import strategies as st

    @st.composite
    def build(draw):
        n_stmt = draw(st.integers(1, max_statements))
        pool_v = draw(st.lists(st.sampled_from(PLAIN * 3 + TRICKY + FUNCTION_LIKE), min_size=2, max_size=max(6, max_statements + 2),
                               unique=True))
        pool_p = draw(st.lists(st.sampled_from(PARAM_NAMES), max_size=2, unique=True))
        pool_e = draw(st.lists(st.sampled_from(ERROR_NAMES), max_size=2, unique=True))
        pool_e = [x for x in pool_e if x not in pool_v]
        pool_p = [x for x in pool_p if x not in pool_v and x not in pool_e]
        if clash:
            pool_v = sorted(set(pool_v) | {draw(st.sampled_from(['log', 'exp', 'max', 'abs', 'min']))})
        call_ok = [c for c in (REPLACED_CALLS + OTHER_CALLS) if clash or c[0] not in pool_v] if calls else []
        if numeric_only_calls:
            call_ok = [c for c in call_ok if c[0] in ('exp', 'log', 'max', 'min', 'abs')]

        def index():
            opts = [st.none(), st.none(), st.just(0), st.integers(-max_offset, max_offset),
                    st.integers(1, max_offset).map(lambda k: ['+', k])]
            if big_offsets:
                opts.append(st.sampled_from([-12, -10, 11]))
            if named_periods:
                opts.append(st.sampled_from([['q', "'p0'"], ['q', '"p2"'], ['bt', '1'], ['bt', '3'], ['q', "'p4'"]]))
            return st.one_of(*opts)

        def var():
            kinds = [st.sampled_from(pool_v).map(lambda n: (n, 'v'))] * 3
            if pool_p:
                kinds.append(st.sampled_from(pool_p).map(lambda n: (n, 'p')))
            if pool_e:
                kinds.append(st.sampled_from(pool_e).map(lambda n: (n, 'e')))
            return st.tuples(st.one_of(*kinds), index()).map(lambda x: ['var', x[0][0], x[0][1], x[1]])

        num = st.sampled_from(NUMBERS).map(lambda s: ['num', s])
        leaves = [var(), var(), var(), num]
        if verbatim:
            leaves.append(st.sampled_from(VERB_FRAGMENTS).map(lambda s: ['verb', s]))
        leaf = st.one_of(*leaves)

        def extend(ch):
            opts = [
                st.tuples(st.just('bin'), st.sampled_from(['+', '-', '*', '/', '**', '+', '*']), ch, ch).map(list),
                st.tuples(st.just('un'), st.sampled_from(['-', '-', '+']), ch).map(list),
                st.tuples(st.just('paren'), ch).map(list),
            ]
            if keywords:
                opts += [
                    st.tuples(st.just('cmp'), st.sampled_from(['<', '<=', '>', '>=', '==', '!=']), ch, ch).map(list),
                    st.tuples(st.just('bool'), st.sampled_from(['and', 'or']), ch, ch).map(list),
                    st.tuples(st.just('if'), ch, ch, ch).map(list),
                    st.tuples(st.just('un'), st.just('not'), ch).map(list),
                ]
            if call_ok:
                opts.append(st.sampled_from(call_ok).flatmap(
                    lambda c: st.lists(ch, min_size=c[1], max_size=c[1]).map(lambda a: ['call', c[0], a])))
                one = [c for c in call_ok if c[1] == 1]
                if one:
                    # a call whose whole argument is a signed integer literal: f(-1) reads like a lag in other modelling
                    # languages, here it is a function call
                    opts.append(st.tuples(st.sampled_from(one), st.sampled_from(['-', '-', '+']), st.sampled_from(['1', '2', '3', '10'])).map(
                        lambda x: ['call', x[0][0], [['un', x[1], ['num', x[2]]]]]))
            return st.one_of(*opts)

        expr = st.recursive(leaf, extend, max_leaves=max_leaves)
        lhs_names = draw(st.lists(st.sampled_from(pool_v), min_size=n_stmt, max_size=n_stmt, unique=True)
                         if len(pool_v) >= n_stmt else
                         st.lists(st.sampled_from(pool_v), min_size=1, max_size=len(pool_v), unique=True))
        prog = []
        for name in lhs_names:
            li = draw(st.sampled_from([None, None, None, 0] + ([1, -1, ['+', 2]] if lhs_offsets else [])))
            prog.append(['assign', ['var', name, 'v', li], draw(expr)])
        if clash:
            # force a name that is used both as a variable and as a function (both textual orders)
            f = draw(st.sampled_from([n for n in ('log', 'exp', 'max', 'abs', 'min') if n in pool_v] or ['log']))
            arity = 2 if f in ('max', 'min') else 1
            v = ['var', f, 'v', draw(index())]
            c = ['call', f, [draw(expr) for _ in range(arity)]]
            parts = [v, c] if draw(st.booleans()) else [c, v]
            which = draw(st.integers(0, len(prog) - 1))
            old_rhs = prog[which][2]
            new_rhs = ['bin', draw(st.sampled_from(['+', '*', '-'])), parts[0], parts[1]]
            if draw(st.booleans()):
                new_rhs = ['bin', '+', old_rhs, new_rhs]
            prog[which] = ['assign', prog[which][1], new_rhs]
        if blocks and draw(st.booleans()):
            prog.insert(draw(st.integers(0, len(prog))), ['block', draw(st.sampled_from(
                ['pass', 'self._X[t] = self._X[t] + 0', 'if True:\n    pass', 'pass', '', '# note: nothing to do']))])
        return prog

    return build()


def tapes(max_len=40):
    from hypothesis import strategies as st
    return st.lists(st.sampled_from([0, 0, 0, 0, 1, 2, 3, 4, 5, 6, 7, 1, 2]), max_size=max_len)


# -- exhaustive enumerator over a reduced alphabet ------------------------------------


def enumerate_exprs(size, names, offsets, calls=True):
    """All expressions with exactly `size` nodes over the reduced alphabet."""
    if size == 1:
        for n in names:
            for o in offsets:
                yield ['var', n[0], n[1], o]
        yield ['num', '2']
        return
    # unary minus
    for e in enumerate_exprs(size - 1, names, offsets, calls):
        yield ['un', '-', e]
        if calls:
            yield ['call', 'exp', [e]]
    for left in range(1, size - 1):
        right = size - 1 - left
        for op in ('+', '*', '**'):
            for l in enumerate_exprs(left, names, offsets, calls):
                for r in enumerate_exprs(right, names, offsets, calls):
                    yield ['bin', op, l, r]


def enumerate_programs(max_nodes, two_statements=True):
    """All one-statement programs up to `max_nodes` expression nodes, plus two-statement programs with
    small right-hand sides, over names {Y, X, {a}} and offsets {None, -2, -1, +1}."""
    names = [('Y', 'v'), ('X', 'v'), ('a', 'p')]
    offsets = [None, -2, -1, 1]
    for size in range(1, max_nodes + 1):
        for e in enumerate_exprs(size, names, offsets):
            yield [['assign', ['var', 'Y', 'v', None], e]]
    if two_statements:
        small = []
        for size in range(1, 3):
            small.extend(enumerate_exprs(size, [('Y', 'v'), ('X', 'v'), ('Z', 'v')], [None, -1, 1], calls=False))
        for e1 in small:
            for e2 in small:
                yield [['assign', ['var', 'Y', 'v', None], e1], ['assign', ['var', 'X', 'v', None], e2]]
                yield [['assign', ['var', 'Z', 'v', None], e1], ['assign', ['var', 'Y', 'v', None], e2]]


def selfcheck():
    """Rendered canonical text of every expression parses (as Python, with terms rewritten) to to_pyast()."""
    from .core import HarnessError
    samples = [
        ['bin', '**', ['un', '-', ['var', 'X', 'v', None]], ['num', '2']],
        ['un', '-', ['bin', '**', ['var', 'X', 'v', -1], ['num', '2']]],
        ['bin', '-', ['bin', '-', ['var', 'a', 'p', None], ['var', 'b', 'v', 1]], ['var', 'c', 'e', ['+', 2]]],
        ['bin', '-', ['var', 'a', 'v', None], ['bin', '-', ['var', 'b', 'v', None], ['var', 'c', 'v', None]]],
        ['bin', '**', ['var', 'a', 'v', None], ['bin', '**', ['var', 'b', 'v', None], ['var', 'c', 'v', None]]],
        ['bin', '**', ['bin', '**', ['var', 'a', 'v', None], ['var', 'b', 'v', None]], ['var', 'c', 'v', None]],
        ['if', ['var', 'a', 'v', None], ['cmp', '<', ['var', 'b', 'v', None], ['num', '0']],
         ['if', ['num', '1'], ['var', 'c', 'v', None], ['num', '2']]],
        ['bool', 'or', ['bool', 'and', ['var', 'a', 'v', None], ['var', 'b', 'v', None]], ['un', 'not', ['var', 'c', 'v', None]]],
        ['bool', 'and', ['bool', 'and', ['var', 'a', 'v', None], ['var', 'b', 'v', None]], ['var', 'c', 'v', None]],
        ['bool', 'and', ['var', 'a', 'v', None], ['bool', 'and', ['var', 'b', 'v', None], ['var', 'c', 'v', None]]],
        ['cmp', '<', ['cmp', '<', ['var', 'a', 'v', None], ['var', 'b', 'v', None]], ['var', 'c', 'v', None]],
        ['call', 'max', [['var', 'a', 'v', None], ['un', '-', ['num', '2.']]]],
        ['bin', '*', ['num', '2'], ['un', '-', ['var', 'a', 'v', None]]],
        ['bin', '**', ['num', '2'], ['un', '-', ['var', 'a', 'v', None]]],
        ['un', 'not', ['cmp', '==', ['var', 'a', 'v', None], ['num', '1']]],
        ['bin', '+', ['un', 'not', ['var', 'a', 'v', None]], ['num', '1']],
        ['un', '-', ['un', 'not', ['var', 'a', 'v', None]]],
        ['bin', '*', ['if', ['num', '1'], ['var', 'a', 'v', None], ['num', '2']], ['num', '3']],
    ]
    import re
    for e in samples:
        for tape in ([], [1] * 60, [2] * 60, [3, 1, 2] * 20):
            text = render_expr(e, Tape(tape), depth=1)
            # rewrite terms the way the statement of C01 says, by a *separate* tiny rewriter
            py = re.sub(r'\{\s*(\w+)\s*\}|<\s*(\w+)\s*>', lambda m: m.group(1) or m.group(2), text)
            py = re.sub(r'\b([A-Za-z_]\w*)\s*\[\s*([+-]?\d+)\s*\]',
                        lambda m: f'self._{m.group(1)}[t{int(m.group(2)):+d}]' if int(m.group(2)) else f'self._{m.group(1)}[t]', py)
            py = re.sub(r'(?<![\w.\]])([A-Za-z_]\w*)\b(?![\w.])(?!\s*[\[(])',
                        lambda m: m.group(0) if m.group(1) in ('if', 'else', 'and', 'or', 'not', 't', 'self')
                        else f'self._{m.group(1)}[t]', py)
            got = dump(ast.parse('(' + py + ')', mode='eval').body)
            want = dump(_canon_t(to_pyast(e)))
            if got != want:
                raise HarnessError(f'grammar self-check failed for {e}: rendered {text!r}\n  parsed  {got}\n  expected {want}')


def _canon_t(node):
    """Normalise t+k / t-k spelling differences (`t+1` vs `t + 1`; `t-1` parses as BinOp Sub)."""
    class T(ast.NodeTransformer):
        def visit_BinOp(self, n):
            self.generic_visit(n)
            if isinstance(n.left, ast.Name) and n.left.id == 't' and isinstance(n.op, ast.Add) \
                    and isinstance(n.right, ast.UnaryOp):
                return ast.BinOp(left=n.left, op=ast.Sub(), right=n.right.operand)
            return n
    return T().visit(node)
