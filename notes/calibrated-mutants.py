# Design-phase calibration (2026-10-01): one-line mutants of /repo that PASS the
# pinned 240-test suite. Each is (id, file, old, new); `old` occurs exactly once.
# Reference material for building /verif/mutants/*.patch — not used by any check.
SURVIVORS = [
 ('C01-suffix-fn', 'fsic/parser.py', "            return replacement_function_names.get(code, code)", "            for k, v in replacement_function_names.items():\n                if code.split('.')[-1] == k:\n                    return v\n            return code"),
 ('C01-kw-boundary', 'fsic/parser.py', "rf'(?: \\b (?P<_KEYWORD> {KEYWORD_LIST} ) \\b )|'", "rf'(?: \\b (?P<_KEYWORD> {KEYWORD_LIST} ) )|'"),
 ('C02-tol-le', 'fsic/core/models.py', "if np.all(np.abs(diff) < tol):", "if np.all(np.abs(diff) <= tol):"),
 ('C03-intstr', 'fsic/parser.py', "elif types == (int, str):\n                outcome = this", "elif types == (int, str):\n                outcome = 0"),
 ('C03-strint', 'fsic/parser.py', "elif types == (str, int):\n                outcome = that", "elif types == (str, int):\n                outcome = 0"),
 ('C05-tol-dropped', 'fsic/core/interfaces.py', "            solved[i] = self.solve_t(\n                t,\n                min_iter=min_iter,\n                max_iter=max_iter,\n                tol=tol,", "            solved[i] = self.solve_t(\n                t,\n                min_iter=min_iter,\n                max_iter=max_iter,"),
 ('C05-period-miniter', 'fsic/core/interfaces.py', "        return self.solve_t(\n            t,\n            min_iter=min_iter,\n            max_iter=max_iter,\n            tol=tol,\n            offset=offset,", "        return self.solve_t(\n            t,\n            max_iter=max_iter,\n            tol=tol,\n            offset=offset,"),
 ('C06-prev-cur-swap', 'fsic/core/models.py', "            if np.any(~np.isfinite(previous_values)):\n                continue\n", "            if np.any(~np.isfinite(previous_values)) and not np.any(~np.isfinite(current_values)):\n                continue\n"),
 ('C07-tmpl-tol', 'fsic/fortran.py', "     if(all(abs(diff) < tol)) then", "     if(all(abs(diff) <= tol)) then"),
 ('C07-tmpl-lags', 'fsic/fortran.py', "  ! Check that `index` allows for enough lags and leads\n  if(index <= lags) then\n     error_code = index_error_lags\n     return\n  else if(index > (ncols - leads)) then\n     error_code = index_error_leads\n     return\n  end if\n\n  ! Optionally copy", "  ! Check that `index` allows for enough lags and leads\n  if(index < lags) then\n     error_code = index_error_lags\n     return\n  else if(index > (ncols - leads)) then\n     error_code = index_error_leads\n     return\n  end if\n\n  ! Optionally copy"),
 ('C07-numbering', 'fsic/fortran.py', "itertools.chain(endogenous, exogenous, parameters, errors), start=1", "itertools.chain(endogenous, parameters, exogenous, errors), start=1"),
 ('C08-stamp-all', 'fsic/core/linkers.py', "        for name in submodels:\n            submodel = self.__dict__['submodels'][name]\n            submodel.status[t] = status", "        for name in self.__dict__['submodels']:\n            submodel = self.__dict__['submodels'][name]\n            submodel.status[t] = status"),
 ('C08-order', 'fsic/core/linkers.py', "        for name in submodels:\n            submodel = self.__dict__['submodels'][name]\n\n            with warnings", "        for name in [k for k in self.__dict__['submodels'] if k in submodels]:\n            submodel = self.__dict__['submodels'][name]\n\n            with warnings"),
 ('C09-flatten', 'fsic/core/containers.py', "value_as_array = np.array(value).flatten()", "value_as_array = np.array(value)"),
 ('C09-values-astype', 'fsic/core/containers.py', "                self.__setattr__(\n                    name, series.astype(self.__getattribute__('_' + name).dtype)\n                )", "                self.__dict__['_' + name] = series"),
 ('C10-set-step', 'fsic/core/containers.py', "self.__dict__['_' + name][start_location:stop_location:step] = value", "self.__dict__['_' + name][start_location:stop_location] = value"),
 ('C11-shallow', 'fsic/core/containers.py', "copied.__dict__.update({k: copy.deepcopy(v) for k, v in self.__dict__.items()})", "copied.__dict__.update({k: (copy.deepcopy(v) if isinstance(v, np.ndarray) else copy.copy(v)) for k, v in self.__dict__.items()})"),
 ('C12-str-default', 'fsic/core/containers.py', "                if value is None:\n                    value = ''\n", "                if value is None:\n                    value = 'nan'\n"),
 ('C12-noncopy', 'fsic/core/containers.py', "        reindexed = self.copy()\n        reindexed.__dict__['span'] = span", "        reindexed = self.copy()\n        reindexed.__dict__['_attributes'] = self.__dict__['_attributes']\n        reindexed.__dict__['span'] = span"),
 ('C13-closing-check', 'fsic/parser.py', "            if unmatched_parentheses < 0:", "            if unmatched_parentheses < -99:"),
 ('C14-brace-space', 'fsic/parser.py', r"(?: \{ \s* (?P<_PARAMETER> [_A-Za-z][_A-Za-z0-9]* ) \s* \} )|", r"(?: \{ \s* (?P<_PARAMETER> [_A-Za-z][_A-Za-z0-9]* ) \} )|"),
 ('C14-comment-rfind', 'fsic/parser.py', "hash_position = line.find('#')", "hash_position = line.rfind('#')"),
 ('C14-blank-in-paren', 'fsic/parser.py', "    for line in map(strip_comments, model.splitlines()):\n        buffer.append(line)", "    for line in map(strip_comments, model.splitlines()):\n        if not line.strip() and unmatched_parentheses:\n            buffer = buffer[-1:]\n        buffer.append(line)"),
 ('C15-untyped-lags', 'fsic/parser.py', "    LAGS = {lags}\n    LEADS = {leads}", "    LAGS = {leads}\n    LEADS = {lags}"),
 ('C16-builtins-copy', 'fsic/core/containers.py', "builtins = copy.deepcopy(_builtins)", "builtins = _builtins"),
 ('C16-diff-fill', 'fsic/functions.py', "        differenced = x - lag(x, d, fill_value=fill_value)\n        differenced[:d] = fill_value", "        differenced = x - lag(x, d, fill_value=fill_value)"),
 ('C16-dlog-fill', 'fsic/functions.py', "    return diff(log(x), d=d, fill_value=fill_value)", "    return diff(log(x), d=d)"),
 ('C16-locals-order', 'fsic/core/containers.py', "        # Update with model variables\n        locals_.update({x: self[x] for x in self.index})\n\n        # Add user locals as needed\n        if locals is not None:\n            locals_.update(locals)", "        # Add user locals as needed\n        if locals is not None:\n            locals_.update(locals)\n\n        # Update with model variables\n        locals_.update({x: self[x] for x in self.index})"),
 ('C17-after-iteration', 'fsic/extensions/model.py', "        super().solve_t_after(\n            t, *args, trace=trace, reset=reset, iteration=iteration, **kwargs\n        )", "        super().solve_t_after(\n            t, *args, trace=trace, reset=reset, **kwargs\n        )"),
 ('C17-trace-false', 'fsic/extensions/model.py', "        # Store results *after* each iteration\n        if trace:", "        # Store results *after* each iteration\n        if trace is not None:"),
 ('C18-two-pass', 'fsic/extensions/common.py', "        while True:\n            # Check for chained aliases", "        for _ in range(2):\n            # Check for chained aliases"),
 ('C19-linker-internal', 'fsic/tools.py', "        results[name] = model.to_dataframe(\n            status=status, iterations=iterations, include_internal=include_internal\n        )", "        results[name] = model.to_dataframe(\n            status=status, iterations=iterations\n        )"),
 ('C20-last-eq', 'fsic/tools.py', "        lhs, rhs = e.split('=', maxsplit=1)\n        endogenous", "        lhs, rhs = e.rsplit('=', maxsplit=1)\n        endogenous"),
]

# Suite command used for calibration (from a scratch copy, PYTHONPATH=<copy>):
#   /venv/bin/python -m pytest -q -x -p no:cacheprovider -p no:randomly \
#       tests/test_core.py tests/test_extensions.py tests/test_tools.py tests/test_functions.py \
#       tests/test_parser.py tests/test_fortran.py::TestBuild \
#       --deselect tests/test_tools.py::TestPandasFunctions::test_dataframe_to_symbols
# Killed by the suite (not worth shipping as sensitivity mutants): lead sign in Term.__str__,
# forward span replacement, np.all->np.any, min_iter <=, offset guard >, min(this,that), default
# start from lags-1, skip stamping iteration-1, pandas-slice stop+1, names without deepcopy,
# int/iterations/bool reindex defaults, brace check removed, split('=') w/o maxsplit, shift
# off-by-one, trace before evaluate, alias single pass / tuple keys / preferred single,
# underscore filter, graph node index dropped, untyped _evaluate signature edits.
