#!/bin/sh
# verify_seed.sh <dir-with-patch.diff-and-demo.py> : confirm a seeded change on a scratch worktree of /repo HEAD:
#   patch applies, pinned suite still passes (240), demo exits 1 with the change and 0 without it.
D="$(cd "$1" && pwd)"
W="$(mktemp -d /tmp/seedverify-XXXXXX)"
git -C /repo worktree add --detach "$W" HEAD >/dev/null 2>&1 || { echo "worktree failed"; exit 2; }
trap 'git -C /repo worktree remove --force "$W" >/dev/null 2>&1; rm -rf "$W"' EXIT
cd "$W" || exit 2
/venv/bin/python "$D/demo.py" "$W" >/dev/null 2>&1; base=$?
if ! git apply "$D/patch.diff" 2>/dev/null; then echo "RESULT $1 patch-does-not-apply"; exit 1; fi
suite="$(/verif/tools/repo_suite.sh "$W" 2>&1 | tail -1)"
/venv/bin/python "$D/demo.py" "$W" >/dev/null 2>&1; with=$?
echo "RESULT $1 demo_without=$base demo_with=$with suite=[$suite]"
