#!/venv/bin/python
"""Print the per-property table of DESIGN.md section 8.1 from the committed evidence files (quick tier)."""
import json
import os
import sys

ROOT = os.path.dirname(os.path.dirname(os.path.abspath(__file__)))
sys.path.insert(0, ROOT)


def k(n):
    return f'{n / 1000:.1f}k' if n >= 1000 else str(n)


print('| Prop | Phases: evaluations (E = enumerated, H = Hypothesis-generated) | evaluations | distinct non-trivial | wall |')
print('|------|------------------------------------------------------------------|-------------|----------------------|------|')
for i in range(1, 21):
    pid = 'C%02d' % i
    e = json.load(open(os.path.join(ROOT, 'evidence', pid + '.json')))
    c = e['coverage']
    mod = __import__(f'fsicverif.props.c{i:02d}', fromlist=['phases'])
    kinds = {p.name: ('E' if p.gen is not None else 'H') for p in mod.phases('quick')}
    per = c.get('per_phase_evaluations', {})
    phases = '; '.join(f'{kinds.get(n, "?")} {n}: {k(v)}' for n, v in sorted(per.items(), key=lambda x: -x[1]))
    print(f"| {pid} | {phases} | {k(c['evaluations'])} | {k(c['distinct_nontrivial'])} | {e['wall_s']:.0f} s |")
