#!/bin/sh
# Run the repository's pinned baseline (240 stable tests) against a tree (default /repo).
# No verification hooks exist in the source (guard FSIC_VERIF is reserved, unset here).
TREE="${1:-/repo}"
cd "$TREE" || exit 2
unset FSIC_VERIF
exec /venv/bin/python -m pytest -q -p no:cacheprovider \
    tests/test_core.py tests/test_extensions.py tests/test_tools.py tests/test_functions.py \
    tests/test_parser.py "tests/test_fortran.py::TestBuild" \
    --deselect tests/test_tools.py::TestPandasFunctions::test_dataframe_to_symbols
