#!/venv/bin/python
"""Regenerate MANIFEST.json from the property modules that exist (fsicverif/props/cXX.py)."""
import importlib
import json
import os
import sys

sys.path.insert(0, os.path.dirname(os.path.dirname(os.path.abspath(__file__))))
ROOT = os.path.dirname(os.path.dirname(os.path.abspath(__file__)))

props = [json.loads(l) for l in open(os.path.join(ROOT, 'properties.jsonl'))]
checks, na = [], []
for p in props:
    pid = p['id']
    path = os.path.join(ROOT, 'fsicverif', 'props', pid.lower() + '.py')
    if not os.path.exists(path):
        na.append({'property_id': pid, 'reason': 'check not built yet in this session (the technique applies; see DESIGN.md section 5)'})
        continue
    mod = importlib.import_module(f'fsicverif.props.{pid.lower()}')
    checks.append({
        'property_id': pid,
        'quick_cmd': f'./check {pid} --tier quick',
        'thorough_cmd': f'./check {pid} --tier thorough',
        'evidence_file': f'evidence/{pid}.json',
        'replay_cmd_template': f'./check {pid} --replay {{path}}',
        'engine': 'fsicverif',
        'level_claimed': {
            'category': mod.LEVEL,
            'text': mod.LEVEL_TEXT,
            'design_ref': mod.DESIGN_REF,
        },
        'level_note': mod.LEVEL_NOTE,
        'technique': mod.TECHNIQUE,
    })

manifest = {
    'version': 1,
    'setup_cmd': './setup.sh',
    'hooks': {
        'guard': 'FSIC_VERIF',
        'enable': 'no hooks or instrumentation were added to the repository: every observation point is reached by subclassing, '
                  'by swapping recording arrays into an instance __dict__, or from return values; checks import fsic from '
                  '/repo\'s working tree (override: FSIC_VERIF_REPO) in every process',
        'baseline_off_cmd': 'tools/repo_suite.sh /repo',
        'source_commits': [],
        'add_only': True,
    },
    'engines': [{
        'name': 'fsicverif',
        'path': 'fsicverif/',
        'serves_properties': [c['property_id'] for c in checks],
        'kind_free_text': 'property-based testing / fuzzing framework: Hypothesis strategies (seeded per shard, shrinking on), exhaustive '
                          'enumeration of small finite domains sharded over 16 processes, reference models and differential/metamorphic '
                          'oracles, root-cause bucketing of violations, known-findings file, JSON replay files',
    }],
    'checks': checks,
    'not_applicable': na,
    'notes': 'Run ./check <ID> [--tier quick|thorough] [--replay FILE]; VERIF_SEED selects the seed. Exit 0 held / 1 VIOLATION / 2 harness error. '
             'known_findings.json lists recorded findings (KNOWN-FINDING lines) and fixed: entries for fix: commits in /repo.',
}
with open(os.path.join(ROOT, 'MANIFEST.json'), 'w') as fh:
    json.dump(manifest, fh, indent=1)
    fh.write('\n')
print('checks:', [c['property_id'] for c in checks], 'not_applicable:', [n['property_id'] for n in na])
