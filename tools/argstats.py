#!/venv/bin/python
"""argstats.py ID [ID...]: run quick checks with a profiler that records, for every call into /repo/fsic, the argument
names and (abbreviated) values, and print per public function the values each parameter took.  Informational, like
coverage.sh: it shows which options and option values the generators never pass."""
import collections
import json
import os
import subprocess
import sys
import tempfile

ROOT = os.path.dirname(os.path.dirname(os.path.abspath(__file__)))

RUNNER = r'''
import collections, json, os, sys
OUT = os.environ['ARGSTATS_DIR']
FSIC = os.path.realpath(os.environ.get('FSIC_VERIF_REPO', '/repo')) + '/fsic'
stats = collections.Counter()
n = [0]

def short(v):
    if v is None or isinstance(v, (bool, int, float, str)):
        r = repr(v)
        return r if len(r) <= 14 else type(v).__name__
    if isinstance(v, (list, tuple, dict)):
        return f'{type(v).__name__}[{len(v)}]' if len(v) < 3 else type(v).__name__
    return type(v).__name__

def dump():
    with open(os.path.join(OUT, f'{os.getpid()}.json'), 'w') as fh:
        json.dump([[list(k), c] for k, c in stats.items()], fh)

def prof(frame, event, arg):
    if event != 'call':
        return
    co = frame.f_code
    if not co.co_filename.startswith(FSIC):
        return
    name = os.path.basename(co.co_filename) + ':' + co.co_qualname
    nargs = co.co_argcount + co.co_kwonlyargcount
    loc = frame.f_locals
    for var in co.co_varnames[:nargs]:
        if var != 'self':
            stats[(name, var, short(loc.get(var)))] += 1
    flags = co.co_flags
    extra = nargs + (1 if flags & 0x04 else 0)
    if flags & 0x08:
        kw = loc.get(co.co_varnames[extra])
        if isinstance(kw, dict):
            for k, v in kw.items():
                stats[(name, '**' + str(k), short(v))] += 1
    n[0] += 1
    if n[0] % 5000 == 0:
        dump()

sys.setprofile(prof)
import multiprocessing.util as mpu

class _Hook:
    pass

_hook = _Hook()

def _in_child(obj):
    stats.clear()          # the parent dumps its own counts
    mpu.Finalize(None, dump, exitpriority=10)

mpu.register_after_fork(_hook, _in_child)
import runpy
sys.argv = ['fsicverif.run'] + sys.argv[1:]
try:
    runpy.run_module('fsicverif.run', run_name='__main__')
finally:
    sys.setprofile(None)
    dump()
'''


def main():
    ids = sys.argv[1:] or ['C%02d' % i for i in range(1, 21)]
    with tempfile.TemporaryDirectory(prefix='fsicverif-args-') as d:
        script = os.path.join(d, 'runner.py')
        open(script, 'w').write(RUNNER)
        for i in ids:
            env = dict(os.environ, ARGSTATS_DIR=d, PYTHONHASHSEED='0', PYTHONPATH=ROOT + os.pathsep + os.path.join(ROOT, '.deps'))
            r = subprocess.run(['/venv/bin/python', script, i, '--tier', 'quick', '--no-evidence'], cwd=ROOT, env=env,
                               capture_output=True, text=True)
            print((r.stdout.strip().splitlines() or [r.stderr[-300:]])[-1][:120], file=sys.stderr)
        total = collections.Counter()
        for fn in os.listdir(d):
            if fn.endswith('.json'):
                for k, c in json.load(open(os.path.join(d, fn))):
                    total[tuple(k)] += c
    by = collections.defaultdict(lambda: collections.defaultdict(collections.Counter))
    for (name, var, val), c in total.items():
        by[name][var][val] += c
    for name in sorted(by):
        if name.split(':')[1].split('.')[-1].startswith('__') and '__init__' not in name:
            continue
        print(name)
        for var, vals in by[name].items():
            top = ', '.join(f'{v} x{c}' for v, c in vals.most_common(12))
            print(f'    {var}: {top}')


if __name__ == '__main__':
    main()
