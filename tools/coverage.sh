#!/bin/sh
# coverage.sh [IDs...]: run the quick tier of the checks under coverage.py (workers included) and print the lines of
# /repo/fsic that no check executed. Informational: used to find behaviour the generators never reach.
cd "$(dirname "$0")/.." || exit 2
D="$(mktemp -d /tmp/fsicverif-cov-XXXXXX)"
trap 'rm -rf "$D"' EXIT
cat > "$D/rc" <<EOC
[run]
concurrency = multiprocessing
parallel = True
branch = ${COV_BRANCH:-False}
sigterm = True
source = ${FSIC_VERIF_REPO:-/repo}/fsic
data_file = $D/.coverage
EOC
IDS="${*:-C01 C02 C03 C04 C05 C06 C07 C08 C09 C10 C11 C12 C13 C14 C15 C16 C17 C18 C19 C20}"
for id in $IDS; do
  COVERAGE_RCFILE="$D/rc" PYTHONHASHSEED=0 PYTHONPATH="$PWD/.deps" /venv/bin/python -m coverage run --rcfile="$D/rc" \
      -m fsicverif.run "$id" --tier quick --no-evidence 2>&1 | tail -1 | cut -c1-100
done
cd "$D" && /venv/bin/python -m coverage combine --rcfile="$D/rc" 2>&1 | tail -1
/venv/bin/python -m coverage report --rcfile="$D/rc" -m
