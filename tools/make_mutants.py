#!/venv/bin/python
"""Write mutants/<id>.patch from (file, old, new) triples; `old` must occur exactly once in /repo's file."""
import difflib, importlib.util, os, sys
ROOT = os.path.dirname(os.path.dirname(os.path.abspath(__file__)))
spec = importlib.util.spec_from_file_location('cm', os.path.join(ROOT, 'mutants', 'catalogue.py'))
cm = importlib.util.module_from_spec(spec); spec.loader.exec_module(cm)
n = 0
for mid, path, old, new in cm.MUTANTS:
    src = open(os.path.join('/repo', path)).read()
    if src.count(old) != 1:
        print(f'SKIP {mid}: pattern occurs {src.count(old)} times'); continue
    dst = src.replace(old, new)
    diff = difflib.unified_diff(src.splitlines(True), dst.splitlines(True), 'a/' + path, 'b/' + path)
    open(os.path.join(ROOT, 'mutants', mid + '.patch'), 'w').write(''.join(diff))
    n += 1
print(n, 'mutant patches written')
