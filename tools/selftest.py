#!/venv/bin/python
"""Sensitivity self-test: apply each seeded change / mutant to a scratch copy of /repo's working tree
and require the property's quick check to exit 1 with a VIOLATION line.

    tools/selftest.py [name-filter ...]     e.g.  tools/selftest.py C16   or   tools/selftest.py seeded/C02-a

Sources: seeded/<name>/patch.diff (sub-agent written, property = first 3 chars of the name) and
mutants/<PROP>-<name>.patch.  Scratch copies live under $TMPDIR and are removed after each run.
Results are printed as a table and written to selftest_results.json (committed, informational).
"""
import concurrent.futures
import json
import os
import shutil
import subprocess
import sys
import tempfile
import time

ROOT = os.path.dirname(os.path.dirname(os.path.abspath(__file__)))
REPO = '/repo'


def candidates():
    out = []
    sd = os.path.join(ROOT, 'seeded')
    for name in sorted(os.listdir(sd)):
        p = os.path.join(sd, name, 'patch.diff')
        if os.path.exists(p):
            meta = os.path.join(sd, name, 'meta.json')
            if os.path.exists(meta) and json.load(open(meta)).get('superseded_by'):
                continue         # neutralised by a later fix: commit (recorded in its meta.json)
            out.append(('seeded/' + name, name[:3], p))
    md = os.path.join(ROOT, 'mutants')
    if os.path.isdir(md):
        for fn in sorted(os.listdir(md)):
            if fn.endswith('.patch'):
                out.append(('mutants/' + fn[:-6], fn[:3], os.path.join(md, fn)))
    return out


def run_one(item, props=None, tier='quick'):
    name, prop, patch = item
    t0 = time.time()
    tmp = tempfile.mkdtemp(prefix='fsic-mut-')
    try:
        shutil.copytree(os.path.join(REPO, 'fsic'), os.path.join(tmp, 'fsic'))
        r = subprocess.run(['git', 'apply', '--unsafe-paths', '--directory', tmp, patch],
                           cwd=tmp, capture_output=True, text=True)
        if r.returncode != 0:
            r = subprocess.run(['patch', '-p1', '-d', tmp, '-i', patch], capture_output=True, text=True)
            if r.returncode != 0:
                return {'name': name, 'property': prop, 'result': 'patch-failed', 'detail': r.stdout + r.stderr}
        results = {}
        for p in (props or [prop]):
            env = dict(os.environ, FSIC_VERIF_REPO=tmp, VERIF_NPROC=os.environ.get('SELFTEST_NPROC', '4'))
            try:
                r = subprocess.run([os.path.join(ROOT, 'check'), p, '--tier', tier, '--no-evidence'],
                                   cwd=ROOT, env=env, capture_output=True, text=True, timeout=1500)
            except subprocess.TimeoutExpired:
                results[p] = {'exit': 2, 'keys': [], 'stderr': 'timeout after 1500 s'}
                continue
            keys = [l.strip()[4:] for l in r.stdout.splitlines() if l.strip().startswith('key=')]
            results[p] = {'exit': r.returncode, 'keys': keys[:6],
                          'stderr': r.stderr[-300:] if r.returncode == 2 else ''}
        own = results[prop] if prop in results else list(results.values())[0]
        verdict = 'killed' if own['exit'] == 1 else ('harness-error' if own['exit'] == 2 else 'SURVIVED')
        return {'name': name, 'property': prop, 'result': verdict, 'checks': results,
                'wall_s': round(time.time() - t0, 1)}
    finally:
        shutil.rmtree(tmp, ignore_errors=True)


def main():
    filters = sys.argv[1:]
    items = [c for c in candidates() if not filters or any(f in c[0] for f in filters)]
    built = {fn[:-3].upper() for fn in os.listdir(os.path.join(ROOT, 'fsicverif', 'props')) if fn.startswith('c')}
    items = [c for c in items if c[1] in built]
    out = []
    path = os.path.join(ROOT, 'selftest_results.json')

    def save():
        old = {}
        if os.path.exists(path):
            old = {r['name']: r for r in json.load(open(path))}
        for r in out:
            old[r['name']] = r
        json.dump(sorted(old.values(), key=lambda r: r['name']), open(path, 'w'), indent=1)

    if filters:
        # in the order of the filters given (so that a long run can be cut short after the parts that matter most)
        items.sort(key=lambda c: min(i for i, f in enumerate(filters) if f in c[0]))
    with concurrent.futures.ThreadPoolExecutor(max_workers=int(os.environ.get('SELFTEST_WORKERS', '4'))) as ex:
        for r in ex.map(run_one, items):
            out.append(r)
            if len(out) % 8 == 0:
                save()          # (results survive an interrupted run)
            keys = (r.get('checks', {}).get(r['property'], {}) or {}).get('keys', [])
            print(f"{r['result']:14s} {r['name']:40s} {r.get('wall_s', '')}s  {keys[:2]}", flush=True)
            if r['result'] in ('harness-error', 'patch-failed'):
                print('   ', r.get('detail') or r['checks'])
    save()
    bad = [r for r in out if r['result'] != 'killed']
    print(f'{len(out) - len(bad)}/{len(out)} killed')
    return 1 if bad else 0


if __name__ == '__main__':
    sys.exit(main())
