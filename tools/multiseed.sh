#!/bin/sh
# Run every built check at several seeds on the unchanged tree; print one line per (check, seed) that is not clean.
cd "$(dirname "$0")/.." || exit 2
SEEDS="${SEEDS:-2 3 4 5 6}"
for f in fsicverif/props/c[0-9][0-9].py; do
  id=$(basename "$f" .py | tr c C)
  for s in $SEEDS; do
    out=$(VERIF_SEED=$s ./check "$id" --no-evidence 2>&1); code=$?
    if [ $code -ne 0 ]; then echo "NOT-CLEAN $id seed=$s exit=$code"; echo "$out" | grep -E "VIOLATION|key=|detail=|HARNESS" | cut -c1-500 | head -8; fi
  done
  echo "done $id"
done
