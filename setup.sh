#!/bin/sh
# Offline setup: make sure hypothesis (and, for the C13 thorough tier, atheris) are importable.
cd "$(dirname "$0")" || exit 2
if ! /venv/bin/python -c "import hypothesis" 2>/dev/null; then
    /venv/bin/pip install --no-index --find-links /opt/veriftools/wheels --target .deps hypothesis || exit 2
fi
if ! PYTHONPATH=.deps /venv/bin/python -c "import atheris" 2>/dev/null; then
    /venv/bin/pip install --no-index --find-links /opt/veriftools/wheels --target .deps atheris >/dev/null 2>&1 \
        || echo "note: atheris not installed (only the optional C13 thorough fuzzing phase uses it)"
fi
PYTHONPATH=.deps /venv/bin/python -c "import hypothesis, numpy, pandas; print('setup ok: hypothesis', hypothesis.__version__)"
